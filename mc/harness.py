"""Thin drivers around the real qlasskit API used by several checks."""
import hashlib
import os
import sys

_src = os.environ.get("QLASSKIT_SRC")
if _src and _src not in sys.path:
    sys.path.insert(0, _src)

import qlasskit  # noqa: E402
from qlasskit import qlassf  # noqa: E402
from qlasskit.boolopt import defaultOptimizer, fastOptimizer  # noqa: E402

from . import sim  # noqa: E402

PROFILES = {"default": defaultOptimizer, "fast": fastOptimizer}


def translate(src, profile="default", **kw):
    """Source text -> QlassF without a circuit (real ast2ast + translate_ast + optimizer)."""
    return qlassf(src, to_compile=False, bool_optimizer=PROFILES[profile], **kw)


def compile_src(src, profile="default", uncompute=True, **kw):
    return qlassf(src, to_compile=True, compiler="internal", bool_optimizer=PROFILES[profile],
                  uncompute=uncompute, **kw)


def input_names(qf):
    return [b for a in qf.args for b in a.bitvec]


def expr_columns(qf):
    """Columns of every symbol defined by qf.expressions (sequential semantics)."""
    names = input_names(qf)
    env, M = sim.boolev_list(qf.expressions, names)
    return env, M, names


def circuit_columns(qf, extra_init=None):
    """Run the compiled circuit on all basis inputs at once: qubit i < n_inputs starts with
    the column of input bit i, every other qubit with 0 (or extra_init[q])."""
    names = input_names(qf)
    n = len(names)
    M = sim.mask(n)
    qc = qf.circuit()
    init = {i: sim.col(i, n) for i in range(n)}
    if extra_init:
        init.update(extra_init)
    cols = sim.bitsim(qc.gates, qc.num_qubits, init, M)
    return cols, M, n


def _hx(x):
    if isinstance(x, bool) or x is None or isinstance(x, (str, float)):
        return x
    if isinstance(x, int):
        return hex(x)
    if isinstance(x, (list, tuple, set, frozenset)):
        return [_hx(e) for e in x]
    if isinstance(x, dict):
        return sorted((str(k), _hx(v)) for k, v in x.items())
    return repr(x)


def h12(x):
    return hashlib.sha1(repr(_hx(x)).encode()).hexdigest()[:12]


def exc_name(e):
    return type(e).__name__
