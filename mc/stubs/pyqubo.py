"""Polynomial-semantics stand-in for pyqubo (absent from this image), used only by check C18.

Every expression is an explicit multilinear polynomial over binary variables: dict frozenset(names) -> coeff.
The gadget polynomials are those documented by pyqubo 1.x (logical gates and logical constraints).  compile()
returns a Model exposing the polynomial so that energies can be evaluated on every assignment; to_qubo /
to_ising / to_bqm reduce the degree to 2 with the standard exact product gadget (z = x*y enforced by a penalty
larger than the sum of the absolute coefficients), which preserves energies at the optimal auxiliaries.
"""
import itertools


class Express:
    def __init__(self, terms=None):
        self.terms = dict(terms or {})

    @staticmethod
    def lift(x):
        if isinstance(x, Express):
            return x
        if isinstance(x, bool):
            return Express({frozenset(): 1.0 if x else 0.0})
        if isinstance(x, (int, float)):
            return Express({frozenset(): float(x)})
        raise TypeError("cannot use %r in a pyqubo expression" % (x,))

    def _clean(self):
        self.terms = {k: v for k, v in self.terms.items() if abs(v) > 1e-12}
        return self

    def __add__(self, o):
        o = Express.lift(o)
        t = dict(self.terms)
        for k, v in o.terms.items():
            t[k] = t.get(k, 0.0) + v
        return Express(t)._clean()

    __radd__ = __add__

    def __neg__(self):
        return Express({k: -v for k, v in self.terms.items()})

    def __sub__(self, o):
        return self + (-Express.lift(o))

    def __rsub__(self, o):
        return Express.lift(o) + (-self)

    def __mul__(self, o):
        o = Express.lift(o)
        t = {}
        for k1, v1 in self.terms.items():
            for k2, v2 in o.terms.items():
                k = k1 | k2  # binary variables: x*x = x
                t[k] = t.get(k, 0.0) + v1 * v2
        return Express(t)._clean()

    __rmul__ = __mul__

    def variables(self):
        out = set()
        for k in self.terms:
            out |= k
        return sorted(out)

    def degree(self):
        return max([len(k) for k in self.terms] or [0])

    def value(self, sample):
        return sum(v for k, v in self.terms.items() if all(sample[x] for x in k))

    def compile(self, strength=None):
        return Model(self)


def Binary(label):
    if not isinstance(label, str):
        raise TypeError("label must be a string")
    return Express({frozenset([label]): 1.0})


def _two(args, name):
    if len(args) != 2:
        raise TypeError("%s() takes exactly 2 operands (%d given)" % (name, len(args)))
    return Express.lift(args[0]), Express.lift(args[1])


def Not(*args):
    if len(args) != 1:
        raise TypeError("Not() takes exactly 1 operand (%d given)" % len(args))
    return 1 - Express.lift(args[0])


def And(*args):
    a, b = _two(args, "And")
    return a * b


def Or(*args):
    a, b = _two(args, "Or")
    return a + b - a * b


def Xor(*args):
    a, b = _two(args, "Xor")
    return a + b - 2 * a * b


def NotConst(a, b, label):
    a, b = Express.lift(a), Express.lift(b)
    return 2 * a * b - a - b + 1


def AndConst(a, b, c, label):
    a, b, c = Express.lift(a), Express.lift(b), Express.lift(c)
    return a * b - 2 * (a + b) * c + 3 * c


def OrConst(a, b, c, label):
    a, b, c = Express.lift(a), Express.lift(b), Express.lift(c)
    return a * b + (a + b) * (1 - 2 * c) + c


def XorConst(a, b, c, label):
    a, b, c = Express.lift(a), Express.lift(b), Express.lift(c)
    aux = Binary("aux_" + str(label))
    return 2 * a * b - 2 * (a + b) * c - 4 * (a + b) * aux + 4 * aux * c + a + b + c + 4 * aux


class DecodedSample:
    def __init__(self, sample, energy):
        self.sample = sample
        self.energy = energy


class BQM:
    vartype = "BINARY"

    def __init__(self, linear, quadratic, offset):
        self.linear = linear
        self.quadratic = quadratic
        self.offset = offset


class Model:
    def __init__(self, express):
        self.poly = express

    def reduced(self):
        """Degree <= 2 polynomial equal to self.poly at the optimal auxiliaries."""
        terms = dict(self.poly.terms)
        P = 1.0 + 2.0 * sum(abs(v) for v in terms.values())
        sub = {}
        n_aux = 0
        while True:
            big = [k for k in terms if len(k) > 2]
            if not big:
                break
            k = sorted(big, key=lambda s: (-len(s), sorted(s)))[0]
            x, y = sorted(k)[:2]
            if (x, y) not in sub:
                z = "aux_red_%d" % n_aux
                n_aux += 1
                sub[(x, y)] = z
                # penalty: P * (xy - 2xz - 2yz + 3z)
                for kk, vv in ((frozenset([x, y]), P), (frozenset([x, z]), -2 * P), (frozenset([y, z]), -2 * P), (frozenset([z]), 3 * P)):
                    terms[kk] = terms.get(kk, 0.0) + vv
            z = sub[(x, y)]
            new = {}
            for kk, vv in terms.items():
                if len(kk) > 2 and x in kk and y in kk:
                    kk = (kk - {x, y}) | {z}
                new[kk] = new.get(kk, 0.0) + vv
            terms = new
        return Express(terms)._clean()

    def to_qubo(self, **kw):
        r = self.reduced()
        q = {}
        off = 0.0
        for k, v in r.terms.items():
            ks = sorted(k)
            if len(ks) == 0:
                off += v
            elif len(ks) == 1:
                q[(ks[0], ks[0])] = q.get((ks[0], ks[0]), 0.0) + v
            else:
                q[(ks[0], ks[1])] = q.get((ks[0], ks[1]), 0.0) + v
        return q, off

    def to_ising(self, **kw):
        q, off = self.to_qubo()
        h, J = {}, {}
        for (a, b), v in q.items():
            if a == b:  # x = (s+1)/2
                h[a] = h.get(a, 0.0) + v / 2
                off += v / 2
            else:      # xy = (s_a s_b + s_a + s_b + 1)/4
                J[(a, b)] = J.get((a, b), 0.0) + v / 4
                h[a] = h.get(a, 0.0) + v / 4
                h[b] = h.get(b, 0.0) + v / 4
                off += v / 4
        return h, J, off

    def to_bqm(self, **kw):
        q, off = self.to_qubo()
        lin = {a: v for (a, b), v in q.items() if a == b}
        quad = {(a, b): v for (a, b), v in q.items() if a != b}
        for (a, b) in quad:
            lin.setdefault(a, 0.0)
            lin.setdefault(b, 0.0)
        return BQM(lin, quad, off)

    def decode_sampleset(self, sampleset, **kw):
        return [DecodedSample(dict(s), self.poly.value({v: s.get(v, 0) for v in self.poly.variables()})) for s in sampleset]

    def decode_sample(self, sample, vartype="BINARY", **kw):
        return DecodedSample(dict(sample), self.poly.value({v: sample.get(v, 0) for v in self.poly.variables()}))
