"""E1 expression space for C04 (DESIGN.md §3.2): boolean expressions enumerated as sympy objects built
with the normal evaluating constructors, and expression *lists* with shared intermediates."""
import functools
import itertools

from sympy import Symbol
from sympy.logic.boolalg import ITE, And, Implies, Not, Or, Xor, true

VARS = [Symbol(c) for c in "abcde"]


def _uniq(seq):
    seen = set()
    out = []
    for e in seq:
        k = str(e)
        if k not in seen:
            seen.add(k)
            out.append(e)
    return out


@functools.lru_cache(maxsize=None)
def depth1(nv):
    L = VARS[:nv]
    out = []
    out += [Not(v) for v in L]
    for op in (And, Or, Xor):
        out += [op(x, y) for x, y in itertools.combinations(L, 2)]
        out += [op(x, Not(y)) for x in L for y in L if x != y]
        out += [op(Not(x), Not(y)) for x, y in itertools.combinations(L, 2)]
    out += [Implies(x, y) for x in L for y in L if x != y]
    out += [ITE(c, t, e) for c in L for t in L for e in L if len({c, t, e}) == 3]
    out += [ITE(c, Not(t), e) for c in L for t in L for e in L if c != t and c != e]
    return tuple(_uniq(e for e in out if e not in (True, False) and not isinstance(e, Symbol)))


@functools.lru_cache(maxsize=None)
def depth2(nv, tier):
    L = list(VARS[:nv])
    D1 = list(depth1(nv))
    A = L + D1
    out = []
    out += [Not(e) for e in D1]
    for op in (And, Or, Xor, Implies):
        for x in A:
            for y in A:
                if op is not Implies and str(x) > str(y):
                    continue
                out.append(op(x, y))
    small = L + [e for e in D1 if not isinstance(e, ITE)][: (24 if tier == "quick" else 60)]
    conds = L + [e for e in D1 if isinstance(e, (And, Or, Xor, Not))][: (8 if tier == "quick" else 20)]
    for c in conds:
        for t in small:
            for e in small:
                out.append(ITE(c, t, e))
    return tuple(_uniq(e for e in out if e not in (True, False) and not isinstance(e, Symbol)))


@functools.lru_cache(maxsize=None)
def nary(tier):
    """n-ary And/Or/Xor of 3-4 literals with every sign pattern, alone and joined pairwise."""
    out = []
    for k in (3, 4):
        L = VARS[:k]
        terms = {}
        for op in (And, Or, Xor):
            terms[op] = [op(*[Not(v) if s else v for v, s in zip(L, signs)]) for signs in itertools.product((0, 1), repeat=k)]
            out += terms[op]
        for inner, outer in ((And, Or), (Or, And), (And, Xor), (Or, Xor)):
            ts = terms[inner]
            for i, x in enumerate(ts):
                for y in ts[i + 1:]:
                    out.append(outer(x, y))
    # 2-literal conjunction pairs (the exact pattern or->xnor is meant for) and mixed arities
    for k in (2, 3):
        L = VARS[:k]
        two = [And(*[Not(v) if s else v for v, s in zip(L[:2], signs)]) for signs in itertools.product((0, 1), repeat=2)]
        three = [And(*[Not(v) if s else v for v, s in zip(VARS[:3], signs)]) for signs in itertools.product((0, 1), repeat=3)]
        for x in two:
            for y in two + three:
                out.append(Or(x, y))
                out.append(Or(x, y, VARS[3]))
    # nested n-ary under binary
    a, b, c, d, e = VARS
    for o1 in (And, Or, Xor):
        for o2 in (And, Or, Xor):
            for o3 in (And, Or, Xor):
                out.append(o3(o2(a, o1(b, c, d)), e))
                out.append(o3(o2(Not(a), o1(b, Not(c), d)), e))
    return tuple(_uniq(e for e in out if e not in (True, False) and not isinstance(e, Symbol)))


def pool(tier):
    nv = 3
    p = list(VARS[:2]) + [Not(VARS[0])] + list(depth1(3)) + list(depth1(4)[:0]) + list(nary(tier)) + list(depth2(nv, tier))
    if tier == "thorough":
        p += list(depth1(4)) + list(depth2(4, "quick"))
    return _uniq(p)


def list_templates(tier):
    """Expression lists with shared intermediates, temporaries and several return symbols.
    Yields lists of (Symbol, expr)."""
    S = Symbol
    x0, x1, t, r, r0, r1, r2 = S("x0"), S("x1"), S("__t"), S("_ret"), S("_ret.0"), S("_ret.1"), S("_ret.2")
    a, b, c, d = VARS[:4]
    E1 = [e for e in depth1(3) if not isinstance(e, Not)][: (14 if tier == "quick" else 40)]
    E1b = [e for e in depth1(3)][:: (5 if tier == "quick" else 2)]
    binops = (And, Or, Xor, lambda x, y: ITE(x, y, c), lambda x, y: Implies(x, y))
    # one shared intermediate, one return
    for e1 in E1:
        for op in binops:
            for y in (a, b, c, Not(a), e1):
                yield [(x0, e1), (r, op(x0, y))]
    # intermediate used twice
    for e1 in E1:
        for op in binops:
            for op2 in (And, Or, Xor):
                yield [(x0, e1), (r, op2(op(x0, a), op(Not(x0), b)))]
    # chain of two intermediates
    for e1 in E1:
        for e2op in (And, Or, Xor):
            for op in (And, Or, Xor):
                yield [(x0, e1), (x1, e2op(x0, c)), (r, op(x1, Not(x0)))]
                yield [(x0, e1), (x1, e2op(x0, c)), (r0, op(x1, a)), (r1, op(x0, x1))]
    # temporaries and redefinition (the shape produced by re-assignment: __t = f(t); t = __t)
    for e1 in E1b:
        for op in (And, Or, Xor):
            yield [(S("v"), e1), (t, op(S("v"), a)), (S("v"), t), (r, op(S("v"), b))]
            yield [(S("v"), a), (t, ITE(c, e1, S("v"))), (S("v"), t), (t, ITE(c, S("v"), b)), (S("v"), t), (r, S("v"))]
    # the same shapes with intermediates whose names merely *contain* the return prefix or look like temporaries:
    # how a step treats a symbol must depend on its role, not on a substring of its name
    for n0, n1 in (("x_ret", "y_ret.1"), ("ret", "my_ret"), ("_x", "t__t")):
        y0, y1 = S(n0), S(n1)
        for e1 in E1[:8]:
            for op in (And, Or, Xor):
                yield [(y0, e1), (r, op(y0, a))]
                yield [(y0, e1), (r0, Xor(And(y0, c), d)), (r1, Xor(And(y0, c), a))]
                yield [(y0, e1), (y1, op(y0, c)), (r0, op(y1, a)), (r1, op(y0, y1))]
    # INPUTS named like the temporaries the cse step invents (x0, x1, x2), copied through bare and used inside expressions,
    # next to sub-expressions shared by several returns (so that cse does introduce temporaries)
    for nm in ("x0", "x1", "x2"):
        z = S(nm)
        for e1 in E1[:8]:
            for op in (And, Or, Xor):
                yield [(r0, z), (r1, op(e1, c)), (r2, Xor(e1, d))]
                yield [(r0, Not(z)), (r1, op(e1, c)), (r2, Xor(e1, z))]
                yield [(S("v"), z), (r0, S("v")), (r1, op(e1, c)), (r2, And(e1, Not(c)))]
    # several return symbols, some trivial
    for e1 in E1b:
        for e2 in E1b[::3]:
            yield [(r0, e1), (r1, e2)]
            yield [(x0, e1), (r0, x0), (r1, Not(x0)), (r2, e2)]
            yield [(r0, a), (r1, e1), (r2, true)]
    # common sub-expressions across returns (what cse extracts)
    for e1 in E1:
        for op in (And, Or, Xor):
            yield [(r0, op(e1, a)), (r1, op(e1, b)), (r2, op(Not(e1), c))]


def as_key(lst):
    return "; ".join("%s = %s" % (s, e) for s, e in lst)


@functools.lru_cache(maxsize=None)
def pool_cached(tier):
    return tuple(pool(tier))


@functools.lru_cache(maxsize=None)
def lists_cached(tier):
    seen = set()
    out = []
    for l in list_templates(tier):
        k = as_key(l)
        if k not in seen:
            seen.add(k)
            out.append(l)
    return tuple(out)
