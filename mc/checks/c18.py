"""C18 — the quadratic-model export has the function's minimisers as ground states."""
import sys

import numpy as np

from .. import harness as H
from .. import progs, pyref, sim, values

ID = "C18"

FORMATS = ["pq_model", "qubo", "ising", "bqm"]

META = {
    "rule": "states = (program, format): programs of families B (<= 2 operators, all labelings; 3 operators over <= 4 variables), I1 depth-1, S and T with "
            "<= 8 input bits, and 7 parameterised programs bound to every value of their parameters (42 binds), x formats {bqm, ising, qubo, pq_model}, exported by the real QlassF.to_bqm with a polynomial-semantics stand-in for pyqubo. "
            "The function's expressions are first compared with the Python value of the source on every determined row (pyref). The polynomial handed to compile() (and the QUBO / Ising / BQM coefficient tables derived from it) is evaluated on EVERY assignment of all "
            "its variables; E(x) = min over non-input variables. Oracle: argmin_x E(x) equals argmin_x #true return bits (bit-parallel evaluation of "
            "the function's expressions), with E = 0 there when the function has a zero; the model's variables are argument bits or declared "
            "auxiliaries (_ret*, aux*), and every argument bit the number of true return bits depends on occurs; decode_samples on a synthetic sample set covering "
            "every input assignment returns the argument values in their high-level types. Non-trivial = function depends on >= 2 bits and is not "
            "constant; distinct = distinct truth tables.",
    "bound": {"quick": "B trees <= 2 ops + 3 ops over <= 4 vars (stride), I1 depth-1 (2,2), S/T quick lists with n <= 8", "thorough": "thorough lists, n <= 8"},
    "assumptions": ["mc/stubs/pyqubo.py implements the documented polynomial meaning of the pyqubo constructs used by to_bqm (gadget identities are "
                    "checked exhaustively in the conformance step); real pyqubo is not installed",
                    "degree reduction in the stub uses an exact product gadget, so energies at optimal auxiliaries are those of the polynomial"],
    "explanation": "states = (program, format) exports through the real to_bqm; transitions = input assignments whose energies are compared.",
}


def install_stub():
    from ..stubs import pyqubo as stub
    sys.modules["pyqubo"] = stub
    return stub


def shards(tier):
    out = []
    for sh in progs.prog_shards(["B", "I1", "S", "T"], tier):
        fam = sh["fam"]
        if fam == "B" and sh.get("kind") == "trees" and sh["size"] > 3:
            continue
        if fam == "I1" and (sh.get("kind") != "d1" or (sh["wa"], sh["wb"]) != (2, 2)):
            continue
        out.append(dict(sh))
    out.append({"fam": "P"})
    return out


# parameterised programs: the model is built after binding ("all accepted programs (after parameter binding)")
BOUND = [
    ("def tfun(a: Qint[2], p: Parameter[Qint[2]]) -> bool:\n    return a == p\n", [{"p": v} for v in range(4)]),
    ("def tfun(a: Qint[2], b: Qint[2], p: Parameter[Qint[2]]) -> bool:\n    return (a + p) > b\n", [{"p": v} for v in range(4)]),
    ("def tfun(a: bool, b: bool, c: bool, p: Parameter[bool]) -> bool:\n    return ((a and b) if p else (a or b)) ^ c\n", [{"p": False}, {"p": True}]),
    ("def tfun(a: Qint[2], b: Qint[2], p: Parameter[Qint[2]]) -> Qint[2]:\n    return (a + p) ^ b\n", [{"p": v} for v in range(4)]),
    ("def tfun(a: Qint[2], p: Parameter[Qlist[bool, 2]]) -> bool:\n    return (a[0] == p[0]) and (a[1] != p[1])\n",
     [{"p": [x, y]} for x in (False, True) for y in (False, True)]),
    ("def tfun(a: Qint[2], b: bool, p: Parameter[Qint[2]], q: Parameter[bool]) -> bool:\n    return (a < p) or (b and q)\n",
     [{"p": v, "q": w} for v in range(4) for w in (False, True)]),
    ("def tfun(a: Qint[2], b: Qint[2], p: Parameter[Qlist[Qint[2], 2]]) -> bool:\n    return (a == p[0]) or (b == p[1])\n",
     [{"p": [v, w]} for v in range(4) for w in range(4)]),
]


def cases(shard):
    if shard["fam"] == "P":
        for src, binds in BOUND:
            for kw in binds:
                yield {"src": src, "fam": "P", "bind": kw, "key": "bqm|bind=%s|%s" % (sorted(kw.items()), src)}
                if len(kw) > 1:
                    rk = dict(reversed(list(kw.items())))   # keywords in the reverse of the declaration order
                    yield {"src": src, "fam": "P", "bind": rk, "key": "bqm|bind(reversed keywords)=%s|%s" % (list(rk.items()), src)}
        return
    i = 0
    for c in progs.prog_cases(shard):
        i += 1
        if shard["fam"] == "B" and shard.get("kind") == "trees" and i % 9 != 0:
            continue  # every 9th of the 80k 3-operator programs (the full list is the C02 space)
        if shard["fam"] in ("S",) and i % 3 != 0:
            continue
        yield {"src": c["src"], "fam": shard["fam"], "key": "bqm|" + c["src"]}


def energies_poly(terms, variables):
    """terms: dict frozenset -> coeff; -> numpy array over all assignments (variable i = bit i of the row index)."""
    V = len(variables)
    pos = {v: i for i, v in enumerate(variables)}
    idx = np.arange(1 << V)
    E = np.zeros(1 << V)
    for k, c in terms.items():
        m = np.ones(1 << V, dtype=bool)
        for v in k:
            m &= ((idx >> pos[v]) & 1).astype(bool)
        E += c * m
    return E


MAXV = 16


class TooLarge(Exception):
    pass


def energies_of(obj, fmt, stub):
    """-> (variables, energy array over all assignments); raises TooLarge(variables) beyond MAXV variables"""
    if fmt == "pq_model":
        terms = obj.poly.terms
        variables = obj.poly.variables()
        if len(variables) > MAXV:
            raise TooLarge(variables)
        return variables, energies_poly(terms, variables)
    if fmt == "qubo":
        q, off = obj
        variables = sorted(set(v for k in q for v in k))
        if len(variables) > MAXV:
            raise TooLarge(variables)
        terms = {frozenset(k): 0.0 for k in q}
        for k, v in q.items():
            terms[frozenset(k)] = terms.get(frozenset(k), 0.0) + v
        terms[frozenset()] = terms.get(frozenset(), 0.0) + off
        return variables, energies_poly(terms, variables)
    if fmt == "bqm":
        variables = sorted(set(obj.linear) | set(v for k in obj.quadratic for v in k))
        if len(variables) > MAXV:
            raise TooLarge(variables)
        terms = {frozenset([k]): v for k, v in obj.linear.items()}
        for k, v in obj.quadratic.items():
            terms[frozenset(k)] = terms.get(frozenset(k), 0.0) + v
        terms[frozenset()] = obj.offset
        return variables, energies_poly(terms, variables)
    if fmt == "ising":
        h, J, off = obj
        variables = sorted(set(h) | set(v for k in J for v in k))
        if len(variables) > MAXV:
            raise TooLarge(variables)
        V = len(variables)
        pos = {v: i for i, v in enumerate(variables)}
        idx = np.arange(1 << V)
        spin = lambda v: 2.0 * ((idx >> pos[v]) & 1) - 1.0  # noqa: E731
        E = np.full(1 << V, float(off))
        for v, c in h.items():
            E += c * spin(v)
        for (a, b), c in J.items():
            E += c * spin(a) * spin(b)
        return variables, E
    raise ValueError(fmt)


def run_case(case):
    stub = install_stub()
    try:
        qf = H.translate(case["src"], "default")
    except Exception as e:
        return {"status": "rejected", "rows": 0, "nontrivial": False, "outcome": "rej:" + H.exc_name(e)}
    if case.get("bind"):
        try:
            qf = qf.bind(**case["bind"])
        except Exception as e:
            return {"status": "violation", "rows": 0, "nontrivial": True, "outcome": "bind-raises",
                    "detail": {"bad": [{"why": "bind raised %s: %s" % (H.exc_name(e), str(e)[:100])}]}, "digest": H.h12("bind-raises")}
    if not hasattr(qf, "to_bqm") or not hasattr(qf, "args"):
        return {"status": "skipped", "rows": 0, "nontrivial": False, "outcome": "unbound"}
    names = H.input_names(qf)
    n = len(names)
    if n > 8:
        return {"status": "skipped", "rows": 0, "nontrivial": False, "outcome": "too-wide"}
    env, M = sim.boolev_list(qf.expressions, names, lenient=True)
    if any(b not in env for b in qf.returns.bitvec):
        return {"status": "skipped", "rows": 0, "nontrivial": False, "outcome": "open"}
    # the function itself: the Python value of the source (with the bound parameter values), wherever it is determined
    try:
        from . import c01
        from .c08 import ref_param
        pr = pyref.Program(case["src"])
        params = {k: ref_param(v) for k, v in case["bind"].items()} if case.get("bind") else None
        b2, _info = c01.judge(qf, pr, params=params, tt=False)
        if b2:
            return {"status": "violation", "rows": 0, "nontrivial": True, "outcome": "not-the-source-function",
                    "detail": {"bad": [dict(b, why="the function the model is built from is not the source's function: " + b["why"]) for b in b2[:2]]},
                    "digest": H.h12([("pyref", b.get("bit"), b["why"], b.get("wrong_rows")) for b in b2])}
    except pyref.Unsupported:
        pass
    import re
    if re.search(r"\*\* 3|a \* a \+", case["src"]) or sum(len(str(e)) for s, e in qf.expressions) > 2500:
        # cubic and higher products of adders (a ** 3, a * a + a on 3-4 bits): the polynomial has thousands of terms
        return {"status": "skipped", "rows": 0, "nontrivial": False, "outcome": "too-large-expression", "counters": {"too_large_expression": 1}}
    rows = 1 << n
    count = np.zeros(rows)
    support = set()
    from .compiled_common import support_size
    for b in qf.returns.bitvec:
        colv = env[b]
        count += np.array([(colv >> r) & 1 for r in range(rows)], dtype=float)
    # argument bits the objective (number of true return bits) depends on: individual dependencies can cancel in the sum,
    # and a cancelled variable legitimately disappears from the polynomial
    ridx = np.arange(rows)
    for i in range(n):
        if np.any(count[ridx] != count[ridx ^ (1 << i)]):
            support.add(names[i])
    want_min = count.min()
    want_arg = set(np.flatnonzero(count == want_min).tolist())
    bad = []
    done = 0
    counters = {"formats_too_large_to_enumerate": 0}
    for fmt in FORMATS:
        try:
            obj = qf.to_bqm(fmt)
        except Exception as e:
            if all(env[b] in (0, M) for b in qf.returns.bitvec):
                # a function whose return bits are all constant has no model: an exception is a rejection
                return {"status": "rejected", "rows": 0, "nontrivial": False, "outcome": "rej-constant:" + H.exc_name(e)}
            bad.append({"format": fmt, "why": "to_bqm raised %s: %s" % (H.exc_name(e), str(e)[:100])})
            continue
        try:
            variables, E = energies_of(obj, fmt, stub)
        except TooLarge as e:
            variables, E = e.args[0], None
            counters["formats_too_large_to_enumerate"] += 1
        except Exception as e:
            bad.append({"format": fmt, "why": "exported object cannot be evaluated: %s" % H.exc_name(e)})
            continue
        foreign = [v for v in variables if v not in names and not (v.startswith("_ret") or "aux" in v)]
        if foreign:
            bad.append({"format": fmt, "why": "model mentions variables foreign to the function", "variables": foreign[:5]})
            continue
        missing = sorted(support - set(variables))
        if missing:
            bad.append({"format": fmt, "why": "argument bits the function depends on are missing from the model", "missing": missing[:5]})
        if E is None:
            continue
        # E_in(x) = min over the non-input variables (and over input bits the model does not mention: they do not matter)
        V = len(variables)
        idx = np.arange(1 << V)
        key = np.zeros(1 << V, dtype=np.int64)
        for i, v in enumerate(variables):
            if v in names:
                key |= ((idx >> i) & 1) << names.index(v)
        mentioned = [names.index(v) for v in variables if v in names]
        Ein_m = np.full(rows, np.inf)
        np.minimum.at(Ein_m, key, E)
        mask_m = sum(1 << i for i in mentioned)
        Ein = np.array([Ein_m[r & mask_m] for r in range(rows)])
        done += rows
        emin = Ein.min()
        got_arg = set(np.flatnonzero(np.abs(Ein - emin) < 1e-9).tolist())
        if got_arg != want_arg:
            extra = sorted(got_arg - want_arg)[:4]
            lost = sorted(want_arg - got_arg)[:4]
            bad.append({"format": fmt, "why": "ground states are not the minimisers of the number of true return bits",
                        "ground_states_not_minimisers": extra, "minimisers_not_ground_states": lost, "n_ground": len(got_arg), "n_min": len(want_arg)})
        elif want_min == 0 and abs(emin) > 1e-9:
            bad.append({"format": fmt, "why": "the zeros of the function are not at energy zero", "energy": float(emin)})
    # decode_samples on a synthetic sample set of every input assignment
    if not bad:
        try:
            from qlasskit.bqm import decode_samples
            model = qf.to_bqm("pq_model")
            mvars = model.poly.variables()
            pr = pyref.Program(case["src"])
            # (a) samples that spell every argument bit; (b) samples that, like a real sampler's, only contain the model's
            # variables: the bits the model does not mention are filled in by random.randint, pinned here to 0 and then to 1
            import random as _random
            mention = [nm in mvars for nm in names]
            for mode in ("all", "fill0", "fill1"):
                sampleset = []
                for r in range(min(rows, 64)):
                    s = {nm: (r >> i) & 1 for i, nm in enumerate(names) if mode == "all" or mention[i]}
                    for v in mvars:
                        s.setdefault(v, 0)
                    sampleset.append(s)
                fill = 1 if mode == "fill1" else 0
                real_randint = _random.randint
                _random.randint = lambda a, b, _f=fill: _f
                try:
                    dec = decode_samples(qf, sampleset)
                finally:
                    _random.randint = real_randint
                if len(dec) != len(sampleset):
                    bad.append({"format": "decode_samples", "why": "%d decoded samples for %d samples" % (len(dec), len(sampleset))})
                    break
                for r, d in enumerate(dec):
                    p = 0
                    for a, t in zip(pr.argnames, pr.argtypes):
                        w = t.width()
                        bits = [((r >> (p + i)) & 1) if (mode == "all" or mention[p + i]) else fill for i in range(w)]
                        ref = pyref.decode_value(t, bits)
                        p += w
                        if a not in d.sample or not values.same(t, d.sample[a], ref, loose_bool=True):
                            bad.append({"format": "decode_samples", "why": "sample %d (%s): argument %s decoded as %s, the sample spells %s" % (
                                r, "all bits present" if mode == "all" else "only model variables present, missing bits filled with %d" % fill,
                                a, values.show(d.sample.get(a)), values.show(ref))})
                            break
                    if bad:
                        break
                if bad:
                    break
        except pyref.Unsupported:
            pass
        except Exception as e:
            bad.append({"format": "decode_samples", "why": "raised %s: %s" % (H.exc_name(e), str(e)[:100])})
    cols = [env[b] for b in qf.returns.bitvec]
    nontrivial = any(c not in (0, M) and support_size(c, n, M) >= 2 for c in cols)
    out = {"status": "ok", "rows": done, "nontrivial": nontrivial, "outcome": H.h12((n, cols)), "counters": counters}
    if bad:
        out["status"] = "violation"
        out["detail"] = {"bad": bad[:4], "expressions": [str(e) for e in qf.expressions][:8]}
        out["digest"] = H.h12([(b["format"], b["why"][:40]) for b in bad])
    return out


def conformance(tier):
    """Gadget identities of the stub, checked on every assignment."""
    stub = install_stub()
    fails = []
    n = 0
    B = stub.Binary
    a, b, c = B("a"), B("b"), B("c")
    import itertools
    for va, vb, vc in itertools.product((0, 1), repeat=3):
        s = {"a": va, "b": vb, "c": vc}
        n += 1
        chk = [
            (stub.Not(a).value(s), 1 - va), (stub.And(a, b).value(s), va & vb), (stub.Or(a, b).value(s), va | vb),
            (stub.Xor(a, b).value(s), va ^ vb),
        ]
        for got, want in chk:
            if abs(got - want) > 1e-12:
                fails.append("gate polynomial wrong at %r" % (s,))
        for name, gad, truth in (("NotConst", stub.NotConst(a, b, "l"), vb == 1 - va), ("AndConst", stub.AndConst(a, b, c, "l"), vc == (va & vb)),
                                 ("OrConst", stub.OrConst(a, b, c, "l"), vc == (va | vb))):
            v = gad.value(s)
            if (abs(v) < 1e-12) != truth or v < -1e-12:
                fails.append("%s gadget wrong at %r (%r)" % (name, s, v))
        x = stub.XorConst(a, b, c, "l")
        best = min(x.value(dict(s, **{"aux_l": t})) for t in (0, 1))
        if (abs(best) < 1e-12) != (vc == (va ^ vb)) or best < -1e-12:
            fails.append("XorConst gadget wrong at %r" % (s,))
    # degree reduction is exact
    p = a * b * c + 2 * a - b
    m = p.compile()
    q, off = m.to_qubo()
    variables = sorted(set(v for k in q for v in k))
    for va, vb, vc in itertools.product((0, 1), repeat=3):
        best = None
        aux = [v for v in variables if v not in ("a", "b", "c")]
        for t in itertools.product((0, 1), repeat=len(aux)):
            s = dict(zip(aux, t), a=va, b=vb, c=vc)
            e = off + sum(v * s[k[0]] * s[k[1]] for k, v in q.items())
            best = e if best is None else min(best, e)
        n += 1
        if abs(best - p.value({"a": va, "b": vb, "c": vc})) > 1e-9:
            fails.append("degree reduction not exact")
    return n, fails
