"""C07 — calling one compiled function from another is function composition."""
import itertools

from .. import harness as H
from .. import pyref, sim
from . import c01
from .c08 import fingerprint

ID = "C07"

META = {
    "rule": "states = (callee, caller, binding route, optimizer profiles): callee pool (bool->bool, (bool,bool)->bool, Qint[2]->Qint[2], "
            "(Qint[2],Qint[2])->Qint[2], Tuple[bool,bool]->bool, Qint[2]->bool with intermediates, (Qint[2],Qint[4])->Qint[4]) x caller templates "
            "(plain variable, swapped / repeated arguments, tuple and list elements of bool and int type, nested and multiple calls, expression "
            "arguments, calls under if / in a loop, caller names equal to the callee's formals or to its prefixed names) x routes {defs=[g], inline "
            "def, oraclize(g, y) for every y}. Oracle: the caller's expressions on ALL inputs vs CPython executing caller and callee together "
            "(pyref); the callee object's fingerprint is unchanged; a rejection (exception) is counted, not judged. Non-trivial = result depends "
            "on >= 2 input bits; distinct = distinct truth tables.",
    "bound": {"quick": "7 callees x ~40 caller shapes x 3 routes x callee profile {default,fast}", "thorough": "adds caller profile fast and wider callees"},
    "assumptions": ["pyref (CPython on the combined source) is the meaning of caller + callee"],
    "explanation": "states = composed programs translated by the real front end; transitions = input rows compared.",
}

CALLEES = {
    "nb": ("def nb(x: bool) -> bool:\n    return not x\n", ["bool"], "bool"),
    "an": ("def an(x: bool, y: bool) -> bool:\n    return x and not y\n", ["bool", "bool"], "bool"),
    "inc": ("def inc(x: Qint[2]) -> Qint[2]:\n    return x + 1\n", ["Qint[2]"], "Qint[2]"),
    "sb": ("def sb(x: Qint[2], y: Qint[2]) -> Qint[2]:\n    return x - y\n", ["Qint[2]", "Qint[2]"], "Qint[2]"),
    "tx": ("def tx(t: Tuple[bool, bool]) -> bool:\n    return t[0] ^ t[1]\n", ["Tuple[bool, bool]"], "bool"),
    "gt": ("def gt(x: Qint[2], y: Qint[2]) -> bool:\n    c = x + y\n    d = c ^ x\n    return d > y\n", ["Qint[2]", "Qint[2]"], "bool"),
    "mx": ("def mx(x: Qint[2], y: Qint[4]) -> Qint[4]:\n    return y - x\n", ["Qint[2]", "Qint[4]"], "Qint[4]"),
    # callees whose locals are assigned more than once (accumulator, conditional overwrite, unrolled loop, aug-assign)
    "acc": ("def acc(x: bool, y: bool) -> bool:\n    t = x and y\n    t = t or (not x)\n    t = t ^ y\n    return t\n", ["bool", "bool"], "bool"),
    "cw": ("def cw(x: bool, y: bool) -> bool:\n    r = x\n    if y:\n        r = not x\n    return r\n", ["bool", "bool"], "bool"),
    "lp": ("def lp(t: Tuple[bool, bool]) -> bool:\n    h = True\n    for i in range(2):\n        h = h and t[i]\n    return h\n", ["Tuple[bool, bool]"], "bool"),
    "sw": ("def sw(x: Qint[2], y: Qint[2]) -> Tuple[Qint[2], Qint[2]]:\n    return (y, x + 1)\n", ["Qint[2]", "Qint[2]"], "Tuple"),
    "ia": ("def ia(x: Qint[2], y: Qint[2]) -> Qint[2]:\n    c = x + y\n    c = c ^ y\n    c += 1\n    return c\n", ["Qint[2]", "Qint[2]"], "Qint[2]"),
}


def callers(name):
    """Caller sources (function tfun) for callee `name`; `{g}` is the callee name."""
    src, argt, rt = CALLEES[name]
    g = name
    out = []
    if argt == ["bool"]:
        sig = "a: bool, b: bool"
        for e in ["{g}(a)", "{g}(b)", "{g}(a) and {g}(b)", "{g}({g}(a))", "{g}(a) ^ b", "{g}(a and b)", "{g}(not a)", "(a if {g}(b) else b)",
                  "{g}(a) == {g}(b)"]:
            out.append("def tfun(%s) -> bool:\n    return %s\n" % (sig, e))
        out.append("def tfun(t: Tuple[bool, bool]) -> bool:\n    return {g}(t[1]) and t[0]\n")
        out.append("def tfun(t: Qlist[bool, 3]) -> bool:\n    return {g}(t[2]) ^ {g}(t[0])\n")
        out.append("def tfun(t: Tuple[Qint[2], bool]) -> bool:\n    return {g}(t[1])\n")
        out.append("def tfun(a: Qint[2]) -> bool:\n    return {g}(a[1])\n")
        out.append("def tfun(x: bool, y: bool) -> bool:\n    return {g}(y) and x\n")
        out.append("def tfun({g}_x: bool, x: bool) -> bool:\n    return {g}(x) ^ {g}_x\n")
        out.append("def tfun(a: bool, b: bool) -> bool:\n    x = a ^ b\n    return {g}(x) and x\n")
        out.append("def tfun(a: bool, b: bool) -> bool:\n    c = False\n    if a:\n        c = {g}(b)\n    return c\n")
        out.append("def tfun(a: bool, b: bool) -> bool:\n    c = a\n    for i in range(3):\n        c = {g}(c) ^ b\n    return c\n")
        out.append("def tfun(t: Qlist[bool, 3]) -> bool:\n    c = False\n    for x in t:\n        c = c ^ {g}(x)\n    return c\n")
    elif argt == ["bool", "bool"]:
        sig = "a: bool, b: bool, c: bool"
        for e in ["{g}(a, b)", "{g}(b, a)", "{g}(a, a)", "{g}(a, b) or {g}(b, c)", "{g}({g}(a, b), c)", "{g}(a, {g}(b, c))", "{g}(a ^ b, c)",
                  "{g}(c, a and b)", "{g}(a, b) == {g}(b, a)"]:
            out.append("def tfun(%s) -> bool:\n    return %s\n" % (sig, e))
        out.append("def tfun(t: Tuple[bool, bool]) -> bool:\n    return {g}(t[1], t[0])\n")
        out.append("def tfun(x: bool, y: bool) -> bool:\n    return {g}(y, x)\n")
        out.append("def tfun(y: bool, x: bool) -> bool:\n    return {g}(x, y) ^ y\n")
        out.append("def tfun({g}_x: bool, {g}_y: bool) -> bool:\n    return {g}({g}_y, {g}_x)\n")
    elif argt == ["Qint[2]"]:
        sig = "a: Qint[2], b: Qint[2]"
        for e, r in [("{g}(a)", rt), ("{g}(b)", rt), ("{g}(a) + {g}(b)", "Qint[2]"), ("{g}({g}(a))", rt), ("{g}(a) ^ b", "Qint[2]"),
                     ("{g}(a + b)", rt), ("{g}(a) > b", "bool"), ("{g}(a) == {g}(b)", "bool"), ("(a if {g}(b) > 1 else b)", "Qint[2]"),
                     ("{g}(a + 1)", rt), ("{g}(a) - 1", "Qint[2]")]:
            out.append("def tfun(%s) -> %s:\n    return %s\n" % (sig, r, e))
        out.append("def tfun(t: Tuple[bool, Qint[2]]) -> %s:\n    return {g}(t[1])\n" % rt)
        out.append("def tfun(t: Tuple[Qint[2], Qint[2]]) -> Qint[2]:\n    return {g}(t[1]) + t[0]\n")
        out.append("def tfun(t: Qlist[Qint[2], 2]) -> Qint[2]:\n    return {g}(t[0]) ^ {g}(t[1])\n")
        out.append("def tfun(x: Qint[2], y: Qint[2]) -> Qint[2]:\n    return {g}(y) + x\n")
        out.append("def tfun({g}_x: Qint[2], x: Qint[2]) -> Qint[2]:\n    return {g}(x) ^ {g}_x\n")
        out.append("def tfun(a: Qint[2], b: Qint[2]) -> Qint[2]:\n    x = a ^ b\n    return {g}(x) + x\n")
        out.append("def tfun(a: Qint[2], b: Qint[2]) -> Qint[2]:\n    c = a\n    if a > b:\n        c = {g}(b)\n    return c\n")
        out.append("def tfun(a: Qint[2], b: Qint[2]) -> Qint[2]:\n    c = a\n    for i in range(2):\n        c = {g}(c)\n    return c\n")
        out.append("def tfun(t: Qlist[Qint[2], 2]) -> Qint[2]:\n    c = 0\n    for x in t:\n        c = c + {g}(x)\n    return c\n")
        # the argument is overwritten by the result of the call (every bit of the result must be computed from the OLD value)
        out.append("def tfun(a: Qint[2], b: Qint[2]) -> Qint[2]:\n    a = {g}(a)\n    return a\n")
        out.append("def tfun(a: Qint[2], b: Qint[2]) -> Qint[2]:\n    c = a ^ b\n    c = {g}(c)\n    return c + a\n")
        out.append("def tfun(a: Qint[2], b: Qint[2]) -> Qint[2]:\n    for i in range(3):\n        a = {g}(a)\n    return a\n")
    elif argt == ["Qint[2]", "Qint[2]"] and rt != "Tuple":
        sig = "a: Qint[2], b: Qint[2]"
        for e, r in [("{g}(a, b)", rt), ("{g}(b, a)", rt), ("{g}(a, a)", rt), ("{g}(a, 1)", rt), ("{g}(3, b)", rt), ("{g}(a + 1, b)", rt),
                     ("{g}(a, b ^ a)", rt)]:
            out.append("def tfun(%s) -> %s:\n    return %s\n" % (sig, r, e))
        if rt == "Qint[2]":
            out.append("def tfun(%s) -> Qint[2]:\n    return {g}({g}(a, b), b)\n" % sig)
            out.append("def tfun(%s) -> Qint[2]:\n    return {g}(a, b) + {g}(b, a)\n" % sig)
        else:
            out.append("def tfun(%s) -> bool:\n    return {g}(a, b) and not {g}(b, a)\n" % sig)
        if rt == "Qint[2]":
            out.append("def tfun(%s) -> Qint[2]:\n    a = {g}(a, b)\n    return a\n" % sig)
            out.append("def tfun(%s) -> Qint[2]:\n    b = {g}(a, b)\n    a = {g}(b, a)\n    return a ^ b\n" % sig)
        out.append("def tfun(t: Tuple[Qint[2], Qint[2]]) -> %s:\n    return {g}(t[1], t[0])\n" % rt)
        out.append("def tfun(t: Qlist[Qint[2], 2], c: Qint[2]) -> %s:\n    return {g}(t[1], c)\n" % rt)
        out.append("def tfun(x: Qint[2], y: Qint[2]) -> %s:\n    return {g}(y, x)\n" % rt)
        out.append("def tfun(y: Qint[2], x: Qint[2]) -> %s:\n    return {g}(x, y)\n" % rt)
        out.append("def tfun({g}_x: Qint[2], {g}_y: Qint[2]) -> %s:\n    return {g}({g}_y, {g}_x)\n" % rt)
    elif argt == ["Tuple[bool, bool]"]:
        out.append("def tfun(t: Tuple[bool, bool]) -> bool:\n    return {g}(t)\n")
        out.append("def tfun(a: bool, b: bool) -> bool:\n    return {g}((a, b))\n")
        out.append("def tfun(a: bool, b: bool) -> bool:\n    return {g}((b, a)) ^ a\n")
        out.append("def tfun(a: bool, b: bool) -> bool:\n    u = (a, not b)\n    return {g}(u)\n")
        out.append("def tfun(t: Tuple[bool, bool], u: Tuple[bool, bool]) -> bool:\n    return {g}(t) and {g}(u)\n")
        out.append("def tfun(t: Tuple[Tuple[bool, bool], bool]) -> bool:\n    return {g}(t[0]) ^ t[1]\n")
        out.append("def tfun(t: Qlist[bool, 2]) -> bool:\n    return {g}(t)\n")
    elif rt == "Tuple":
        sig = "a: Qint[2], b: Qint[2]"
        out.append("def tfun(%s) -> Qint[2]:\n    c = {g}(b, a)\n    return c[1]\n" % sig)
        out.append("def tfun(%s) -> Qint[2]:\n    c = {g}(a, b)\n    return c[0] + c[1]\n" % sig)
        out.append("def tfun(%s) -> Qint[2]:\n    a, b = {g}(a, b)\n    return a - b\n" % sig)
        out.append("def tfun(%s) -> Qint[2]:\n    c, d = {g}(a, b)\n    return c ^ d\n" % sig)
        out.append("def tfun(%s) -> Tuple[Qint[2], Qint[2]]:\n    return {g}(a, b)\n" % sig)
        out.append("def tfun(%s) -> Tuple[Qint[2], Qint[2]]:\n    c = {g}(a, b)\n    return c\n" % sig)
        out.append("def tfun(%s) -> bool:\n    return {g}(a, b) == {g}(b, a)\n" % sig)
    else:  # (Qint[2], Qint[4]) -> Qint[4]
        sig = "a: Qint[2], b: Qint[4]"
        for e in ["{g}(a, b)", "{g}(a, b) + a", "{g}(1, b)", "{g}(a, 5)", "{g}(a, {g}(a, b))"]:
            out.append("def tfun(%s) -> Qint[4]:\n    return %s\n" % (sig, e))
        out.append("def tfun(t: Tuple[Qint[4], Qint[2]]) -> Qint[4]:\n    return {g}(t[1], t[0])\n")
        out.append("def tfun(y: Qint[2], x: Qint[4]) -> Qint[4]:\n    return {g}(y, x)\n")
    return [c.replace("{g}", g) for c in out]


def shards(tier):
    out = []
    cprofs = ["default", "fast"]
    kprofs = ["default"] if tier == "quick" else ["default", "fast"]
    for name in CALLEES:
        for route in ("defs", "inline"):
            for cp in cprofs:
                for kp in kprofs:
                    if route == "inline" and cp != "default":
                        continue
                    out.append({"k": "call", "callee": name, "route": route, "cprofile": cp, "kprofile": kp})
        out.append({"k": "oraclize", "callee": name})
    return out


def cases(shard):
    name = shard["callee"]
    if shard["k"] == "oraclize":
        src, argt, rt = CALLEES[name]
        if len(argt) != 1:
            return
        vals = [True, False] if rt == "bool" else list(range(4 if rt == "Qint[2]" else 16))
        for y in vals:
            for cp in ("default", "fast"):
                yield {"k": "oraclize", "callee": name, "y": y, "cprofile": cp, "key": "oraclize(%s, %r) callee-profile=%s" % (name, y, cp)}
        return
    for caller in callers(name):
        yield {"k": "call", "callee": name, "caller": caller, "route": shard["route"], "cprofile": shard["cprofile"],
               "kprofile": shard["kprofile"],
               "key": "%s|%s|callee=%s/%s|%s" % (shard["route"], shard["kprofile"], name, shard["cprofile"], caller)}


def indent(src):
    return "".join("    " + l + "\n" for l in src.rstrip("\n").split("\n"))


def run_case(case):
    from qlasskit import qlassf
    name = case["callee"]
    csrc, argt, rt = CALLEES[name]
    bad = []
    if case["k"] == "oraclize":
        from qlasskit.algorithms import ConstantOracleException, oraclize
        y = case["y"]
        try:
            g = H.translate(csrc, case["cprofile"])
            fp0 = fingerprint(g)
            o = oraclize(g, y)
        except ConstantOracleException:
            return {"status": "rejected", "rows": 0, "nontrivial": False, "outcome": "constant-oracle"}
        except Exception as e:
            return {"status": "rejected", "rows": 0, "nontrivial": False, "outcome": "rej:" + H.exc_name(e)}
        if fingerprint(g) != fp0:
            bad.append({"why": "oraclize changed the callee object"})
        full = csrc + "def tfun(v: %s) -> bool:\n    return %s(v) == %r\n" % (argt[0], name, y)
        pr = pyref.Program(full, fname="tfun")
        b2, info = c01.judge(o, pr, tt=False)
        bad += b2
        caller_desc = "oraclize(%s, %r)" % (name, y)
    else:
        caller = case["caller"]
        route = case["route"]
        try:
            if route == "defs":
                g = H.translate(csrc, case["cprofile"])
                fp0 = fingerprint(g)
                qf = qlassf(caller, to_compile=False, defs=[g], bool_optimizer=H.PROFILES[case["kprofile"]])
                if fingerprint(g) != fp0:
                    bad.append({"why": "using the callee as a definition changed the callee object"})
                full = csrc + caller
            else:
                lines = caller.split("\n")
                full = lines[0] + "\n" + indent(csrc) + "\n".join(lines[1:])
                qf = qlassf(full, to_compile=False, bool_optimizer=H.PROFILES[case["kprofile"]])
        except Exception as e:
            return {"status": "rejected", "rows": 0, "nontrivial": False, "outcome": "rej:" + H.exc_name(e),
                    "counters": {"rejected_" + H.exc_name(e): 1}}
        try:
            pr = pyref.Program(full, fname="tfun")
            b2, info = c01.judge(qf, pr, tt=False)
        except pyref.Unsupported:
            return {"status": "unjudged", "rows": 0, "nontrivial": False, "outcome": "unjudged"}
        bad += b2
        # every symbol the caller's expressions read must be a caller argument bit or defined earlier
        names = set(H.input_names(qf))
        defined = set()
        for s, e in qf.expressions:
            for v in getattr(e, "free_symbols", set()):
                if v.name not in names and v.name not in defined and not bad:
                    bad.append({"why": "caller expression reads %s, which is neither an argument bit nor defined" % v.name})
            defined.add(s.name)
        caller_desc = caller
    n = info["n"]
    M = sim.mask(n)
    nontrivial = False
    if info["retcols"]:
        from .compiled_common import support_size
        nontrivial = any(c == M and w not in (0, M) and support_size(w, n, M) >= 2 for w, c in zip(*info["retcols"]))
    out = {"status": "ok", "rows": info["rows"], "nontrivial": nontrivial, "outcome": H.h12((n, info["retcols"]))}
    if bad:
        out["status"] = "violation"
        out["detail"] = {"bad": bad[:4], "callee": csrc, "caller": caller_desc,
                         "expressions": [str(e) for e in (o if case["k"] == "oraclize" else qf).expressions][:12]}
        out["digest"] = H.h12([(b.get("bit"), b["why"][:40], b.get("wrong_rows")) for b in bad])
    return out
