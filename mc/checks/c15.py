"""C15 — Grover search amplifies exactly the solutions of the predicate."""
import itertools
import math

from .. import harness as H
from .. import ideal, sim, svsim

ID = "C15"

META = {
    "rule": "states = (search width n, solution set S, syntactic form, optimizer profile): EVERY solution set with 1 <= |S| <= N/4 for the stated n, "
            "each written as disjunction of equalities, bit-level DNF, lookup table, Tuple/Qlist-of-bool argument, and as a value function g with "
            "Grover(g, y) (oraclize path). The exact output distribution of Grover(...).circuit() on |0..0> over output_qubits (sparse exact "
            "simulation) must (i) equal, within 1e-9, the distribution of the same library construction fed with an ideal minterm xor-oracle of S "
            "(hence not depend on the form) and that of a hand-assembled reference circuit of the documented construction with k = ceil(pi/4 sqrt(N/M)) iterations, (ii) rank every solution above every non-solution, (iii) give the solutions total probability > 1/2, "
            "and (iv) decode_output of each solution string is the solution in the argument type. A form whose expressions do not denote S is "
            "skipped (C01's matter). Non-trivial = |S| >= 2 or a non-integer argument type; distinct = distinct (n, S, form).",
    "bound": {"quick": "n=2,3 all sets (40), n=4 |S|<=2 (136); 16 forms (equalities, minterms, tables, tuples, lists, modular arithmetic; value search with int, falsy, bool and Qint-instance targets) x profiles", "thorough": "n=4 all 2516 sets, n=5 |S|<=2 (528 sets)"},
    "assumptions": ["svsim.sparse_run (cross-checked against the dense simulator) is the meaning of the circuit",
                    "the ideal oracle (X-conjugated MCX per solution) is the reference black box; n_matching=|S| and the default iteration count are used"],
    "explanation": "states = Grover instances built by the real constructor on a freshly compiled predicate; transitions = basis outcomes compared.",
}


def sets_for(n, kmax):
    N = 1 << n
    for k in range(1, min(kmax, N // 4) + 1):
        for S in itertools.combinations(range(N), k):
            yield S


def plan(tier):
    if tier == "quick":
        return [(2, 1), (3, 2), (4, 2)]
    return [(2, 1), (3, 2), (4, 4), (5, 2)]


def shards(tier):
    out = []
    for n, kmax in plan(tier):
        sets = list(sets_for(n, kmax))
        step = 8 if n <= 3 else 6
        for lo in range(0, len(sets), step):
            out.append({"n": n, "kmax": kmax, "lo": lo, "hi": min(len(sets), lo + step)})
    return out


FORMS = ["eq", "dnf", "table", "tuple", "qlist", "value", "value_tuple", "value_zero", "pred_false", "arith", "arith_rev", "tuple_ne", "nested", "loop_ge", "value_qint1", "value_qint2"]


def cases(shard):
    n = shard["n"]
    sets = list(sets_for(n, shard["kmax"]))[shard["lo"]:shard["hi"]]
    for S in sets:
        for form in FORMS:
            for prof in (("default", "fast") if form in ("eq", "dnf") else ("default",)):
                yield {"n": n, "S": list(S), "form": form, "profile": prof,
                       "key": "grover n=%d S=%s form=%s profile=%s" % (n, list(S), form, prof)}


def minterm(s, n, var):
    return "(" + " and ".join(("%s[%d]" % (var, i)) if (s >> i) & 1 else ("not %s[%d]" % (var, i)) for i in range(n)) + ")"


def source(n, S, form):
    """-> (src, element_to_search or None, argument kind)"""
    N = 1 << n
    if form == "eq":
        return "def tfun(x: Qint[%d]) -> bool:\n    return %s\n" % (n, " or ".join("x == %d" % s for s in S)), None, "int"
    if form == "dnf":
        return "def tfun(x: Qint[%d]) -> bool:\n    return %s\n" % (n, " or ".join(minterm(s, n, "x") for s in S)), None, "int"
    if form == "table":
        tb = ", ".join("True" if r in S else "False" for r in range(N))
        return "def tfun(x: Qint[%d]) -> bool:\n    c = [%s]\n    return c[x]\n" % (n, tb), None, "int"
    if form == "tuple":
        t = "Tuple[%s]" % ", ".join(["bool"] * n)
        return "def tfun(x: %s) -> bool:\n    return %s\n" % (t, " or ".join(minterm(s, n, "x") for s in S)), None, "tuple"
    if form == "qlist":
        return "def tfun(x: Qlist[bool, %d]) -> bool:\n    return %s\n" % (n, " or ".join(minterm(s, n, "x") for s in S)), None, "tuple"
    if form == "value":
        # g(x) = 1 on S, other values elsewhere; search g(x) == 1
        tb = ", ".join("1" if r in S else str((0, 2, 3)[r % 3]) for r in range(N))
        return "def gfun(x: Qint[%d]) -> Qint[2]:\n    c = [%s]\n    return c[x]\n" % (n, tb), 1, "int"
    if form == "value_tuple":
        t = "Tuple[%s]" % ", ".join(["bool"] * n)
        body = " or ".join(minterm(s, n, "x") for s in S)
        return "def gfun(x: %s) -> Qint[2]:\n    return (2 if %s else 1)\n" % (t, body), 2, "tuple"
    if form == "value_zero":
        # search g(x) == 0 (a falsy target value)
        tb = ", ".join("0" if r in S else str((1, 2, 3)[r % 3]) for r in range(N))
        return "def gfun(x: Qint[%d]) -> Qint[2]:\n    c = [%s]\n    return c[x]\n" % (n, tb), 0, "int"
    if form == "arith":
        # several expressions and recycled scratch qubits: modular subtraction compared with a constant
        return "def tfun(x: Qint[%d]) -> bool:\n    return %s\n" % (n, " or ".join("(x - %d) < 1" % s for s in S)), None, "int"
    if form == "tuple_ne":
        # the argument compared as a whole tuple with a tuple literal through !=
        t = "Tuple[%s]" % ", ".join(["bool"] * n)
        lit = lambda v: "(" + ", ".join("True" if (v >> i) & 1 else "False" for i in range(n)) + ")"  # noqa: E731
        return "def tfun(x: %s) -> bool:\n    return %s\n" % (t, " or ".join("not (x != %s)" % lit(v) for v in S)), None, "tuple"
    if form == "loop_ge":
        # S = {2^k - 1}: the low k bits set, written as an unrolled loop whose branch is chosen by "i >= k" on the loop index
        k = S[0].bit_length() if len(S) == 1 else 0
        if len(S) != 1 or S[0] != (1 << k) - 1 or not 1 <= k < n:
            return None, None, "n/a"
        return ("def tfun(x: Qint[%d]) -> bool:\n    r = True\n    for i in range(%d):\n        if i >= %d:\n            r = r and not x[i]\n"
                "        else:\n            r = r and x[i]\n    return r\n" % (n, n, k)), None, "int"
    if form == "nested":
        # a search register with a nested tuple type of mixed member widths (only for 4 and 5 bits)
        if n == 4:
            t, names = "Tuple[Tuple[bool, Qint[2]], bool]", ["x[0][0]", "x[0][1][0]", "x[0][1][1]", "x[1]"]
        elif n == 5:
            t, names = "Tuple[Tuple[bool, Qint[2]], Qint[2]]", ["x[0][0]", "x[0][1][0]", "x[0][1][1]", "x[1][0]", "x[1][1]"]
        else:
            t, names = "Tuple[%s]" % ", ".join(["bool"] * n), ["x[%d]" % i for i in range(n)]
        mt = lambda v: "(" + " and ".join(names[i] if (v >> i) & 1 else "not " + names[i] for i in range(n)) + ")"  # noqa: E731
        return "def tfun(x: %s) -> bool:\n    return %s\n" % (t, " or ".join(mt(v) for v in S)), None, ("nested" if n in (4, 5) else "tuple")
    if form == "arith_rev":
        # the constant on the left of the subtraction (narrower than the register for small s)
        return "def tfun(x: Qint[%d]) -> bool:\n    return %s\n" % (n, " or ".join("(%d - x) == 0" % s for s in S)), None, "int"
    if form in ("value_qint1", "value_qint2"):
        # the searched value is given as a Qint instance whose bit string is not a palindrome
        v = 1 if form == "value_qint1" else 2
        others = [o for o in (0, 1, 2, 3) if o != v]
        tb = ", ".join(str(v) if r in S else str(others[r % 3]) for r in range(N))
        return "def gfun(x: Qint[%d]) -> Qint[2]:\n    c = [%s]\n    return c[x]\n" % (n, tb), v, "int"
    if form == "pred_false":
        # search the zeros of a predicate: Grover(f, False)
        return "def gfun(x: Qint[%d]) -> bool:\n    return not (%s)\n" % (n, " or ".join("x == %d" % s for s in S)), False, "int"
    raise ValueError(form)


def distribution(alg):
    qc = alg.circuit()
    st = svsim.sparse_run(qc.gates, qc.num_qubits, 0)
    oq = list(alg.output_qubits)
    return svsim.sparse_marginal(st, oq), qc.num_qubits, len(qc.gates)


_HB = {}


def hand_built_distribution(n, S):
    key = (n, tuple(S))
    if key in _HB:
        return _HB[key]
    from qlasskit.qcircuit import gates as G
    N = 1 << n
    k = math.ceil(math.pi / 4.0 * math.sqrt(N / len(S)))
    ret, ph = n, n + 1
    oracle = []
    for s in S:
        zeros = [i for i in range(n) if not (s >> i) & 1]
        oracle += [(G.X(), [i], None) for i in zeros] + [(G.MCX(n), list(range(n)) + [ret], None)] + [(G.X(), [i], None) for i in zeros]
    oracle.append((G.CZ(), [ret, ph], None))
    diff = []
    for i in range(n):
        diff += [(G.H(), [i], None), (G.X(), [i], None)]
    diff += [(G.H(), [ph], None), (G.X(), [ph], None), (G.MCtrl(G.Z(), n), list(range(n)) + [ph], None)]
    for i in range(n):
        diff += [(G.X(), [i], None), (G.H(), [i], None)]
    diff += [(G.X(), [ph], None), (G.H(), [ph], None)]
    gl = [(G.H(), [i], None) for i in range(n)] + [(G.H(), [ph], None)] + (oracle + diff) * k
    st = svsim.sparse_run(gl, n + 2, 0)
    _HB[key] = svsim.sparse_marginal(st, list(range(n)))
    return _HB[key]


def run_case(case):
    from qlasskit.algorithms import Grover
    n, S, form = case["n"], tuple(case["S"]), case["form"]
    N = 1 << n
    src, element, akind = source(n, S, form)
    if src is None:
        return {"status": "skipped", "rows": 0, "nontrivial": False, "outcome": "form-not-applicable-to-this-set"}
    try:
        qf = H.compile_src(src, case["profile"], True)
    except Exception as e:
        return {"status": "rejected", "rows": 0, "nontrivial": False, "outcome": "rej:" + H.exc_name(e)}
    # does the compiled function denote S at all?  (otherwise this is a C01 matter, not Grover's)
    names = H.input_names(qf)
    env, M = sim.boolev_list(qf.expressions, names, lenient=True)
    want = sum(1 << r for r in S)
    if element is None:
        got = env.get(qf.returns.bitvec[0])
    elif isinstance(element, bool):
        b = env.get(qf.returns.bitvec[0])
        got = None if b is None else (b if element else (M ^ b))
    else:
        bits = [env.get(b) for b in qf.returns.bitvec]
        if any(b is None for b in bits):
            got = None
        else:
            got = M
            for j, b in enumerate(bits):
                got &= b if (element >> j) & 1 else (M ^ b)
    if got != want:
        # the function the library derived from this source does not have S as its solutions: whatever the search circuit
        # amplifies, it is not "exactly the solutions of the predicate" (none occurs on the unmodified tree)
        return {"status": "violation", "rows": 0, "nontrivial": True, "outcome": "form-does-not-denote-S",
                "detail": {"bad": [{"why": "the compiled predicate's solutions are not the solutions of the Python predicate",
                                    "S": list(S), "compiled_solutions": None if got is None else sim.rows_of(got, N)[:16]}], "src": src},
                "digest": H.h12("form-does-not-denote-S"), "counters": {"forms_not_denoting_S": 1}}
    bad = []
    try:
        elem_arg = element
        if form.startswith("value_qint"):
            from qlasskit import Qint2
            elem_arg = Qint2(element)
        alg = Grover(qf, elem_arg, n_matching=len(S)) if element is not None else Grover(qf, n_matching=len(S))
        dist, nq, ng = distribution(alg)
    except Exception as e:
        return {"status": "violation", "rows": 0, "nontrivial": True, "outcome": "raised",
                "detail": {"why": "Grover construction or simulation raised", "exc": "%s: %s" % (H.exc_name(e), str(e)[:100]), "src": src},
                "digest": "raised:" + H.exc_name(e)}
    # reference: same construction with the ideal oracle of S (a plain predicate signature)
    sig = "def tfun(x: Qint[%d]) -> bool:\n    return x[0]\n" % n if akind in ("int", "nested") else \
          "def tfun(x: Tuple[%s]) -> bool:\n    return x[0]\n" % ", ".join(["bool"] * n)
    ref = ideal.ideal_qlassf(sig, [(1,) if r in S else (0,) for r in range(N)])
    ralg = Grover(ref, n_matching=len(S))
    rdist, _, _ = distribution(ralg)
    if len(dist) != N:
        bad.append({"why": "output register has %d outcomes instead of %d" % (len(dist), N)})
    else:
        dmax = max(abs(a - b) for a, b in zip(dist, rdist))
        if dmax > 1e-9:
            bad.append({"why": "distribution differs from the ideal-oracle construction", "max_abs_diff": round(dmax, 6),
                        "p_solutions": round(sum(dist[s] for s in S), 6), "p_solutions_ideal": round(sum(rdist[s] for s in S), 6)})
        # independent reference of the documented construction, assembled here gate by gate (not through Grover / QCircuit.repeat):
        # H on the register and on a phase qubit, then k = ceil(pi/4 sqrt(N/M)) times [ideal oracle; CZ(ret, phase); diffuser over
        # register and phase qubit]
        hdist = hand_built_distribution(n, S)
        amax = max(abs(a - b) for a, b in zip(dist, hdist))
        if amax > 1e-9:
            bad.append({"why": "distribution differs from the hand-assembled construction with ceil(pi/4 sqrt(N/M)) iterations", "max_abs_diff": round(amax, 6),
                        "p_solutions": round(sum(dist[s] for s in S), 6), "p_solutions_reference": round(sum(hdist[s] for s in S), 6)})
        pin = min(dist[s] for s in S)
        pout = max(dist[x] for x in range(N) if x not in S)
        if not pin > pout + 1e-12:
            bad.append({"why": "a non-solution is at least as likely as a solution", "min_solution": round(pin, 6), "max_other": round(pout, 6)})
        if not sum(dist[s] for s in S) > 0.5:
            bad.append({"why": "solutions measured with probability <= 1/2", "p": round(sum(dist[s] for s in S), 6)})
        for s in S:
            string = "".join(str((s >> i) & 1) for i in reversed(range(n)))
            try:
                v = alg.decode_output(string)
            except Exception as e:
                bad.append({"why": "decode_output raised", "exc": H.exc_name(e)})
                break
            if akind == "nested":
                b = [(s >> i) & 1 for i in range(n)]
                try:
                    ok = (isinstance(v, tuple) and len(v) == 2 and isinstance(v[0], tuple) and len(v[0]) == 2 and v[0][0] is bool(b[0])
                          and int(v[0][1]) == b[1] + 2 * b[2]
                          and ((v[1] is bool(b[3])) if n == 4 else (not isinstance(v[1], bool) and int(v[1]) == b[3] + 2 * b[4])))
                except Exception:
                    ok = False
            elif akind == "int":
                ok = isinstance(v, int) and not isinstance(v, bool) and int(v) == s
            else:
                ok = isinstance(v, tuple) and list(v) == [bool((s >> i) & 1) for i in range(n)] and all(isinstance(b, bool) for b in v)
            if not ok:
                bad.append({"why": "decode_output(%s) = %r is not the solution %d in the argument type" % (string, v, s)})
                break
    out = {"status": "ok", "rows": N, "nontrivial": len(S) >= 2 or akind != "int", "outcome": H.h12((n, S, form, [round(x, 9) for x in dist])),
           "counters": {"grover_qubits": nq, "grover_gates": ng}}
    if bad:
        out["status"] = "violation"
        out["detail"] = {"bad": bad[:4], "src": src, "element": element, "num_qubits": nq}
        out["digest"] = H.h12([b["why"][:40] for b in bad])
    return out


def conformance(tier):
    """sparse simulator vs dense simulator on every 2-gate circuit over the mixed alphabet (3 qubits)."""
    import numpy as np
    from .. import circs
    A = circs.alphabet(3, ["x", "h", "z", "s", "cx", "cz", "ccx", "swap"], phases=(0.3,))
    n = 0
    fails = []
    for a in A:
        for b in A[::3]:
            qc = circs.make(3, [a, b, ("h", 1)])
            v = svsim.state(qc.gates, 3, 0)
            sp = svsim.sparse_run(qc.gates, 3, 0)
            w = np.zeros(8, dtype=complex)
            for k, x in sp.items():
                w[k] = x
            n += 1
            if not np.allclose(v, w, atol=1e-12):
                fails.append("sparse != dense on %r" % ([a, b],))
    return n, fails
