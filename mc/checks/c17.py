"""C17 — the command-line tools print what the library computes."""
import contextlib
import io
import itertools
import os
import shutil
import sys
import tempfile

from sympy.logic.boolalg import And, Not, Or, Xor, is_cnf, is_dnf, is_nnf

from .. import harness as H
from .. import parsers, sim

ID = "C17"

META = {
    "rule": "states = command lines: scripts assembled from a pool of 17 decorated functions (bool and Qint signatures, with and without optimizer "
            "intermediates, single-clause and multi-clause CNFs, constant and multi-bit results, arguments named like positional qubits) and 2 units that "
            "bind functions to module names other than their def name (bind of a parameterised function, string-built function), 1-3 per script in "
            "alphabetical and reverse definition order; py2bexp x forms {default, anf, cnf, dnf, nnf} x formats {sympy, dimacs} x entry points x {stdout, -o file} x "
            "{-i file, stdin}; py2qasm x versions {2.0, 3.0} x entry points x I/O modes; main() is driven in-process. Oracle: sympy format - the "
            "printed text is parsed, its symbols are argument bits, its truth table on ALL assignments equals the conjunction of the selected "
            "function's return bits, the requested normal form holds; DIMACS - header counts match the clause lines and some one-to-one numbering of "
            "the function's variables gives exactly the same models (brute force); py2qasm - the text equals the QASM export of the selected function "
            "compiled with the chosen compiler and passes the C13 QASM reader check. Non-trivial = multi-function script or -e option; distinct = "
            "distinct command lines.",
    "bound": {"quick": "17 single-function scripts, 22 multi-function scripts; all forms/formats/entry points; 2 of the 4 I/O modes per command",
              "thorough": "all 4 I/O modes, 30 multi-function scripts"},
    "assumptions": ["the selected function's own expressions (boolev) define what has to be printed; C01 judges those",
                    "a leading 'Warning:' line before a DIMACS block is tolerated"],
    "explanation": "states = command lines executed through the real main(); transitions = assignments on which printed and computed functions are compared.",
}

HEADER = "from qlasskit import qlassf, Qint, Qint2, Qint4, Qlist, Parameter\nfrom typing import Tuple\n\n"

POOL = {
    "and2": "@qlassf\ndef and2(a: bool, b: bool) -> bool:\n    return a and b\n",
    "or2": "@qlassf\ndef or2(a: bool, b: bool) -> bool:\n    return a or b\n",
    "orn3": "@qlassf\ndef orn3(a: bool, b: bool, c: bool) -> bool:\n    return a or not b or c\n",
    "maj": "@qlassf\ndef maj(a: bool, b: bool, c: bool) -> bool:\n    return (a and b) or (b and c) or (a and c)\n",
    "xr3": "@qlassf\ndef xr3(a: bool, b: bool, c: bool) -> bool:\n    return a ^ b ^ c\n",
    "mux": "@qlassf\ndef mux(a: bool, b: bool, c: bool) -> bool:\n    return b if a else c\n",
    "cst": "@qlassf\ndef cst(a: bool) -> bool:\n    return True\n",
    "idn": "@qlassf\ndef idn(a: bool) -> bool:\n    return a\n",
    "gt2": "@qlassf\ndef gt2(x: Qint[2], y: Qint[2]) -> bool:\n    return x > y\n",
    "add2": "@qlassf\ndef add2(x: Qint[2], y: Qint[2]) -> Qint[2]:\n    return x + y\n",
    "eq3": "@qlassf\ndef eq3(x: Qint[2]) -> bool:\n    return x == 3\n",
    # nested optimizer temporaries (x2 defined through x1, ...): inlining has to be transitive
    "rng": "@qlassf\ndef rng(x: Qint[4], y: Qint[4]) -> bool:\n    c = x + y\n    return c > 4 and c < 9\n",
    # conjunction of the return bits is unsatisfiable / a contradiction that only simplification reveals
    "fls": "@qlassf\ndef fls(a: Qint[2], b: bool) -> bool:\n    return (a > 3) or (b and not b)\n",
    "ctr": "@qlassf\ndef ctr(a: bool, b: bool) -> Tuple[bool, bool]:\n    return (a and b, not a)\n",
    "tmp": "@qlassf\ndef tmp(a: bool, b: bool, c: bool) -> bool:\n    d = a and b\n    e = d ^ c\n    return (e or d) and not (a and b and c)\n",
    # a local variable whose name merely contains "_ret"
    "rty": "@qlassf\ndef rty(a: bool, b: bool, c: bool) -> bool:\n    is_retry = a and b\n    return is_retry or c\n",
    # arguments called like positional qubit names, in a circuit that has an unnamed scratch qubit
    "vot": "@qlassf\ndef vot(q7: bool, q8: bool, q9: bool) -> Tuple[bool, bool]:\n    return (q7 or q8 or q9, (q7 and q8) or (q8 and q9) or (q7 and q9))\n",
}
NAMES = sorted(POOL)

# units that bind functions to module names different from the name in their def statement: attribute -> (def source, bind kwargs)
_GATE = "def sel(k: Parameter[bool], a: bool, b: bool) -> bool:\n    return (a and b) if k else (a or b)\n"
_F1 = "def f(a: bool) -> bool:\n    return a\n"
_F2 = "def f(a: bool) -> bool:\n    return not a\n"
UNITS = {
    "bnd": ("@qlassf\n" + _GATE + "both = sel.bind(k=True)\nsel = sel.bind(k=False)\n",
            {"both": (_GATE, {"k": True}), "sel": (_GATE, {"k": False})}),
    "als": ("@qlassf\n" + _F1 + "neg = qlassf(%r)\n" % _F2,
            {"f": (_F1, None), "neg": (_F2, None)}),
}


def unit_text(u):
    return UNITS[u][0] if u in UNITS else POOL[u]


def unit_attrs(u):
    return sorted(UNITS[u][1]) if u in UNITS else [u]


def reference(target):
    for u in UNITS:
        if target in UNITS[u][1]:
            src, kw = UNITS[u][1][target]
            qf = H.compile_src(src, "default", True)
            return qf.bind(**kw) if kw else qf
    return H.compile_src(POOL[target].replace("@qlassf\n", ""), "default", True)


def scripts(tier):
    out = [[n] for n in NAMES]
    multi = [["and2", "or2"], ["or2", "and2"], ["xr3", "maj"], ["maj", "xr3"], ["gt2", "add2"], ["add2", "gt2"], ["tmp", "idn"],
             ["cst", "orn3"], ["orn3", "eq3", "mux"], ["mux", "eq3", "orn3"], ["idn", "tmp", "and2"], ["eq3", "cst", "gt2"],
             ["add2", "mux", "or2"], ["maj", "and2", "tmp"], ["rng", "idn"], ["fls", "ctr"], ["ctr", "fls", "cst"],
             ["bnd"], ["als"], ["bnd", "idn"], ["als", "and2"], ["rty", "fls"]]
    if tier == "thorough":
        multi += [list(p) for p in itertools.permutations(["and2", "xr3", "gt2"], 3)] + [list(p) for p in itertools.permutations(["tmp", "add2"], 2)] + \
                 [["orn3", "or2"], ["or2", "orn3"], ["eq3", "idn"], ["idn", "eq3"], ["cst", "maj", "mux"], ["mux", "maj", "cst"], ["gt2", "tmp"], ["tmp", "gt2"]]
    return out + multi


FORMS = [None, "anf", "cnf", "dnf", "nnf"]
IO_MODES = [("file", "stdout"), ("stdin", "file"), ("file", "file"), ("stdin", "stdout")]


def shards(tier):
    out = []
    for si, sc in enumerate(scripts(tier)):
        out.append({"tool": "py2bexp", "si": si, "tier": tier})
        out.append({"tool": "py2qasm", "si": si, "tier": tier})
    return out


def cases(shard):
    tier = shard["tier"]
    sc = scripts(tier)[shard["si"]]
    attrs = [a for u in sc for a in unit_attrs(u)]
    entries = [None] + attrs if len(attrs) == 1 else attrs
    k = 0
    if shard["tool"] == "py2bexp":
        for form in FORMS:
            if form == "anf" and "rng" in sc and tier == "quick":
                continue  # sympy's to_anf needs 15 s on this 8-variable function: thorough only
            for fmt in ("sympy", "dimacs"):
                for e in entries:
                    modes = IO_MODES if tier == "thorough" else [IO_MODES[k % 4], IO_MODES[(k + 2) % 4]]
                    k += 1
                    for im, om in modes:
                        yield {"tool": "py2bexp", "script": sc, "form": form, "format": fmt, "entry": e, "in": im, "out": om,
                               "key": "py2bexp script=%s form=%s format=%s entry=%s in=%s out=%s" % (sc, form, fmt, e, im, om)}
    else:
        for ver in ("2.0", "3.0", None):
            for e in entries:
                modes = IO_MODES if tier == "thorough" else [IO_MODES[k % 4], IO_MODES[(k + 2) % 4]]
                k += 1
                for im, om in modes:
                    yield {"tool": "py2qasm", "script": sc, "version": ver, "entry": e, "in": im, "out": om,
                           "key": "py2qasm script=%s version=%s entry=%s in=%s out=%s" % (sc, ver, e, im, om)}


def run_main(modname, argv, stdin_text):
    """Run tool main() in-process; -> (stdout text, stderr text, exit code or None)."""
    import importlib
    mod = importlib.import_module(modname)
    out, err = io.StringIO(), io.StringIO()
    old_argv, old_stdin = sys.argv, sys.stdin
    sys.argv = [modname.split(".")[-1]] + argv
    sys.stdin = io.StringIO(stdin_text if stdin_text is not None else "")
    code = None
    try:
        with contextlib.redirect_stdout(out), contextlib.redirect_stderr(err):
            try:
                mod.main()
            except SystemExit as e:
                code = e.code
            except Exception as e:  # a crash of the tool is reported as such, not as a harness error
                code = "raised %s: %s" % (type(e).__name__, str(e)[:120])
    finally:
        sys.argv, sys.stdin = old_argv, old_stdin
    return out.getvalue(), err.getvalue(), code


def is_anf_text(text):
    """ANF as printed by sympy: terms joined by ^, each True/False, a symbol or a parenthesised conjunction of symbols
    (checked on the text: re-parsing would let sympy fold the constant term into a negation)."""
    import re
    t = text.strip()
    if t.startswith("(") and t.endswith(")") and t.count("(") == 1:
        t = t[1:-1]
    sym = r"[A-Za-z_][A-Za-z_0-9.]*"
    term = r"(?:True|False|%s|\((?:%s)(?: & %s)*\)|(?:%s)(?: & %s)+)" % (sym, sym, sym, sym, sym)
    return re.match(r"^%s(?: \^ %s)*$" % (term, term), t) is not None


def run_case(case):
    scratch = tempfile.mkdtemp(prefix="c17_")
    old_tmp = os.environ.get("TMPDIR")
    os.environ["TMPDIR"] = scratch
    tempfile.tempdir = None
    try:
        return _run(case, scratch)
    finally:
        if old_tmp is None:
            os.environ.pop("TMPDIR", None)
        else:
            os.environ["TMPDIR"] = old_tmp
        tempfile.tempdir = None
        shutil.rmtree(scratch, ignore_errors=True)
        for m in [m for m in sys.modules if m.startswith("qlassf_")]:
            sys.modules.pop(m, None)


def _run(case, scratch):
    sc = case["script"]
    text = HEADER + "\n".join(unit_text(n) for n in sc)
    argv = []
    stdin_text = None
    if case["in"] == "file":
        ipath = os.path.join(scratch, "script_in.py")
        with open(ipath, "w") as f:
            f.write(text)
        argv += ["-i", ipath]
    else:
        stdin_text = text
    opath = None
    if case["out"] == "file":
        opath = os.path.join(scratch, "result.out")
        argv += ["-o", opath]
    if case["entry"]:
        argv += ["-e", case["entry"]]
    target = case["entry"] or sc[0]
    bad = []
    # what the library computes for the selected function
    qf = reference(target)
    names = H.input_names(qf)
    n = len(names)
    env, M = sim.boolev_list(qf.expressions, names)
    want = M
    for b in qf.returns.bitvec:
        want &= env[b]
    rows = 1 << n
    if case["tool"] == "py2bexp":
        if case["form"]:
            argv += ["-f", case["form"]]
        argv += ["-t", case["format"]]
        out, err, code = run_main("qlasskit.tools.py2bexp", argv, stdin_text)
        if opath:
            printed = open(opath).read() if os.path.exists(opath) else None
            if printed is None:
                bad.append({"why": "no output file written", "stdout": out[:100], "stderr": err[:200]})
        else:
            printed = out
        if code not in (None, 0):
            bad.append({"why": "exit code %r" % (code,), "stderr": err[-200:]})
        if printed is not None and not bad:
            body = "\n".join(l for l in printed.split("\n") if not l.startswith("Warning:")).strip()
            if case["format"] == "sympy":
                try:
                    e = parsers.parse_sympy_bool(body)
                except parsers.ParseError as ex:
                    e = None
                    bad.append({"why": "printed expression cannot be parsed: %s" % ex, "printed": body[:200]})
                if e is not None:
                    syms = set(v.name for v in getattr(e, "free_symbols", set()))
                    if not syms <= set(names):
                        bad.append({"why": "printed expression mentions %s, not argument bits of %s" % (sorted(syms - set(names)), target), "printed": body[:200]})
                    else:
                        col = sim.ev(e, {nm: sim.col(i, n) for i, nm in enumerate(names)}, M)
                        if col != want:
                            d = col ^ want
                            bad.append({"why": "printed expression is not equivalent to the conjunction of the return bits of %s" % target,
                                        "wrong_rows": sim.popcount(d), "first_rows": sim.rows_of(d, rows), "printed": body[:200]})
                        form = case["form"]
                        okf = {None: True, "cnf": is_cnf(e), "dnf": is_dnf(e), "nnf": is_nnf(e), "anf": is_anf_text(body)}[form]
                        if not okf:
                            bad.append({"why": "printed expression is not in %s" % form, "printed": body[:200]})
            else:
                try:
                    nv, nc, clauses = parsers.parse_dimacs(body)
                except (parsers.ParseError, ValueError) as ex:
                    clauses = None
                    bad.append({"why": "DIMACS cannot be parsed: %s" % ex, "printed": body[:200]})
                if clauses is not None:
                    if nc != len(clauses):
                        bad.append({"why": "header declares %d clauses, %d printed" % (nc, len(clauses)), "printed": body[:200]})
                    used = set(abs(l) for c in clauses for l in c)
                    if used and max(used) > nv:
                        bad.append({"why": "literal %d exceeds the %d declared variables" % (max(used), nv), "printed": body[:200]})
                    if not bad:
                        if nv > n:
                            bad.append({"why": "%d DIMACS variables for a function of %d argument bits" % (nv, n), "printed": body[:200]})
                        else:
                            found = False
                            for mp in itertools.permutations(range(n), nv):
                                colv = [sim.col(mp[v], n) for v in range(nv)]
                                cnf = M
                                for c in clauses:
                                    cl = 0
                                    for l in c:
                                        cl |= colv[abs(l) - 1] if l > 0 else (M ^ colv[abs(l) - 1])
                                    cnf &= cl
                                if cnf == want:
                                    found = True
                                    break
                            if not found:
                                bad.append({"why": "no one-to-one numbering of the variables of %s gives the clause set the models of the function" % target,
                                            "printed": body[:300]})
    else:
        if case["version"]:
            argv += ["-q", case["version"]]
        out, err, code = run_main("qlasskit.tools.py2qasm", argv, stdin_text)
        if opath:
            printed = open(opath).read() if os.path.exists(opath) else None
            if printed is None:
                bad.append({"why": "no output file written", "stdout": out[:100], "stderr": err[:200]})
        else:
            printed = out[:-1] if out.endswith("\n") else out  # print() adds one newline
        if code not in (None, 0):
            bad.append({"why": "exit code %r" % (code,), "stderr": err[-200:]})
        if printed is not None and not bad:
            from qlasskit.qcircuit.exporter_qasm import QasmExporter
            from .c13 import check_qasm
            ver = 2 if case["version"] == "2.0" else 3
            qf.compile(compiler="internal")
            ref = QasmExporter(version=ver).export(qf.circuit(), "circuit")
            if printed != ref:
                bad.append({"why": "printed QASM differs from the export of %s (version %d)" % (target, ver), "printed": printed[:200], "expected": ref[:200]})
            p = check_qasm(qf.circuit(), printed, ver, "circuit")
            if p and "rounded to two decimals" not in p:
                bad.append({"why": "printed QASM does not describe the circuit: %s" % p})
    out_d = {"status": "ok", "rows": rows, "nontrivial": len(sc) > 1 or case["entry"] is not None, "outcome": H.h12(case["key"])}
    if bad:
        out_d["status"] = "violation"
        out_d["detail"] = {"bad": bad[:3], "argv": [a if not a.startswith(scratch) else os.path.basename(a) for a in argv], "script": sc}
        out_d["digest"] = H.h12([b["why"][:50] for b in bad])
    return out_d


def conformance(tier):
    """The sympy-str parser inverts str() on the C04 expression pool (stride)."""
    from .. import exprs
    pool = exprs.pool_cached("quick")
    fails = []
    n = 0
    for e in pool[::7]:
        n += 1
        try:
            p = parsers.parse_sympy_bool(str(e))
        except parsers.ParseError as ex:
            fails.append("cannot parse %s: %s" % (e, ex))
            continue
        syms = sorted(v.name for v in e.free_symbols)
        envs = {nm: sim.col(i, len(syms)) for i, nm in enumerate(syms)}
        Ms = sim.mask(len(syms))
        if sim.ev(p, envs, Ms) != sim.ev(e, envs, Ms):
            fails.append("parse(str(e)) differs from e for %s" % e)
    # DIMACS reader round trip
    t = "p cnf 3 2\n1 -2 0\n3 0\n"
    n += 1
    if parsers.parse_dimacs(t) != (3, 2, [[1, -2], [3]]):
        fails.append("dimacs reader")
    return n, fails
