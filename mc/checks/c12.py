"""C12 — the circuit boolean optimizer returns an equivalent, no larger circuit."""
import numpy as np

from .. import circs, svsim
from .. import harness as H

ID = "C12"

CONFIGS = {
    "quick": [
        {"name": "n3", "n": 3, "names": ["x", "cx", "ccx", "h", "swap", "barrier"], "L": 4},
        {"name": "n2", "n": 2, "names": ["x", "cx", "h", "swap", "barrier"], "L": 5},
        {"name": "n5fan", "n": 5, "names": ["fan"], "L": 3},
    ],
    "thorough": [
        {"name": "n5fan", "n": 5, "names": ["fan"], "L": 4},
        {"name": "n3", "n": 3, "names": ["x", "cx", "ccx", "h", "swap", "barrier"], "L": 5},
        {"name": "n2", "n": 2, "names": ["x", "cx", "h", "swap", "barrier"], "L": 7},
        {"name": "n3z", "n": 3, "names": ["x", "cx", "ccx", "z", "cz", "barrier"], "L": 4},
    ],
}

META = {
    "rule": "states = every gate sequence up to length L over {x,cx,ccx,h,swap,barrier} on 2 and 3 qubits (each circuit once, built through "
            "the real API); circuit_boolean_optimizer(qc) (no preserve list) must return a circuit with the same number of qubits, the same "
            "unitary (state-vector simulator, exact to 1e-9: classical sections leave no phase freedom), no more non-barrier gates, and must "
            "leave qc's gate list / qubit map untouched; an exception is a violation. Each operand is also given as copy(vanilla=True) of itself, and the result is optimised a second time (same demands); short circuits are also edited in place (last gate replaced, length unchanged) and optimised again on the same object. Non-trivial = the circuit has a classical section of "
            ">= 2 gates; distinct = distinct gate lists.",
    "bound": {"quick": "n=3 L<=4 (137k circuits), n=2 L<=5", "thorough": "n=3 L<=5 (2.6M), n=2 L<=7, n=3 with z/cz separators L<=4"},
    "assumptions": ["svsim (numpy unitary simulator, cross-checked against qiskit's Operator and against bitsim) is the meaning of a circuit"],
    # a case is a BLOCK of circuits (all sequences below a two-letter prefix): the per-case CPU cap is sized for a block
    "case_cap_s": 900,
    "explanation": "states = circuits; transitions = gate appends + one optimizer run and two unitaries per circuit.",
}


def shards(tier):
    out = []
    for cfg in CONFIGS[tier]:
        A = circs.alphabet(cfg["n"], cfg["names"])
        for sh in circs.shard_list(len(A), cfg["L"], 2):
            d = dict(sh)
            d["cfg"] = cfg
            out.append(d)
    return out


def cases(shard):
    cfg = shard["cfg"]
    yield {"cfg": cfg, "prefix": shard["prefix"], "short": shard.get("short", False),
           "key": "C12 %s L<=%d prefix=%s%s" % (cfg["name"], cfg["L"], shard["prefix"], "+short" if shard.get("short") else "")}


STATS = {"reduced": 0}


def check_circuit(qc, n):
    from qlasskit.decompiler import circuit_boolean_optimizer
    before = (circs.gl(qc), dict(qc.qubit_map), qc.num_qubits)
    try:
        opt = circuit_boolean_optimizer(qc)
    except Exception as e:
        return "optimizer raised %s: %s" % (H.exc_name(e), str(e)[:80])
    if (circs.gl(qc), dict(qc.qubit_map), qc.num_qubits) != before:
        return "the input circuit was modified"
    if opt.num_qubits != qc.num_qubits:
        return "num_qubits %d -> %d" % (qc.num_qubits, opt.num_qubits)
    if opt.num_gates > qc.num_gates:
        return "more gates than the original (%d > %d)" % (opt.num_gates, qc.num_gates)
    try:
        U1 = svsim.unitary(opt.gates, n)
    except svsim.Unsupported as e:
        return "result is not a valid circuit: %s" % e
    U0 = svsim.unitary(qc.gates, n)
    if opt.num_gates < qc.num_gates:
        STATS["reduced"] += 1
    if not svsim.close(U0, U1):
        return "unitary changed (max |diff| = %.3f); result gates %r" % (float(np.max(np.abs(U0 - U1))), [(a, c) for a, b, c, d in circs.gl(opt)])
    return None


def run_case(case):
    cfg = case["cfg"]
    n = cfg["n"]
    A = circs.alphabet(n, cfg["names"])
    states = rows = nontriv = 0
    STATS["reduced"] = 0
    bad = []
    for idxs in circs.seqs(A, cfg["L"], {"prefix": case["prefix"], "short": case["short"]}):
        seq = [A[i] for i in idxs]
        qc = circs.make(n, seq)
        states += 1
        rows += len(seq) + 3
        cl = 0
        best = 0
        for l in seq:
            if l[0] in ("x", "cx", "ccx"):
                cl += 1
                best = max(best, cl)
            elif l[0] != "barrier":
                cl = 0
        if best >= 2:
            nontriv += 1
        p = check_circuit(qc, n)
        if not p and len(seq) <= 3:
            # the same circuit as a vanilla copy (default names, no uncompute bookkeeping) and the optimizer's own output as input
            from qlasskit.decompiler import circuit_boolean_optimizer
            v = qc.copy(True)
            p = check_circuit(v, n)
            if p:
                p = "on a vanilla copy: " + p
            else:
                try:
                    o1 = circuit_boolean_optimizer(qc)
                    p = check_circuit(o1, n)
                    if p:
                        p = "second pass (optimizer output as input): " + p
                except Exception:
                    pass
            rows += 6
            if not p and 1 <= len(seq):
                # history on ONE object: optimise, replace the last gate by another letter (length unchanged), optimise again
                for alt in (A[0], A[len(A) // 2]):
                    if alt == seq[-1]:
                        continue
                    qc.gates.pop()
                    circs.build(qc, [alt])
                    p = check_circuit(qc, n)
                    rows += 3
                    if p:
                        p = "after replacing the last gate by %s%s on the same circuit object: %s" % (alt[0], list(alt[1:]), p)
                        break
        if p:
            bad.append({"circuit": circs.text(A, idxs), "n": n, "problem": p})
            if len(bad) >= 50:
                break
    out = {"status": "ok", "rows": rows, "states": states, "nontrivial": nontriv > 0, "outcome": H.h12(case["key"]),
           "counters": {"circuits_with_classical_section_ge2": nontriv, "circuits_made_smaller": STATS["reduced"]}}
    if bad:
        out["status"] = "violation"
        out["detail"] = {"bad": bad[:5], "n_bad_in_block": len(bad)}
        out["digest"] = H.h12([(b["circuit"], b["problem"][:40]) for b in bad])
    return out
