"""C03 — compiled circuits are clean: inputs preserved, scratch qubits back to zero."""
from .. import harness as H
from .. import sim
from . import compiled_common as CC

ID = "C03"
CONFIGS = [("default", True), ("fast", True)]

META = {
    "rule": "cases = every program of the bounded typed grammar x {default,fast} optimizer, uncompute=True, compiled by the "
            "real qlassf; the final value of EVERY qubit is computed for ALL 2^n basis inputs (bit-parallel). Non-trivial = "
            "the circuit has at least one scratch qubit (neither argument nor output) that some gate targets; distinct = "
            "distinct (gate list, qubit roles) digests among those.",
    "bound": {"quick": "same program lists as C02 quick", "thorough": "same program lists as C02 thorough"},
    "assumptions": [
        "bitsim is the meaning of a classical reversible circuit (cross-checked against the state-vector simulator)",
        "output qubits are the qubits mapped to the return bits (QlassF.output_qubits); input qubits are 0..n-1",
        "a program rejected with an exception is counted, not judged",
    ],
    "explanation": "states = compiled cases; transitions = basis inputs simulated; all on the real compiler output.",
}


def shards(tier):
    return CC.shards(tier, CONFIGS)


cases = CC.cases


def run_case(case):
    qf, rej = CC.compile_case(case)
    if rej:
        return rej
    cols, M, n = H.circuit_columns(qf)
    qc = qf.circuit()
    rows = 1 << n
    try:
        outs = set(qf.output_qubits)
    except Exception as e:  # judged by C05; here the return bits that are mapped count as outputs
        outs = set(qc.qubit_map[b] for b in qf.returns.bitvec if b in qc.qubit_map)
    bad = []
    for i in range(n):
        if i in outs:
            continue  # an output aliased to an input qubit is C05/C06 business
        d = cols[i] ^ sim.col(i, n)
        if d:
            bad.append({"qubit": i, "role": "argument", "why": "argument qubit changed",
                        "wrong_rows": sim.popcount(d), "first_rows": sim.rows_of(d, rows)})
    targeted = set(w[-1] for g, w, p in qc.gates if w)
    scratch = [q for q in range(n, qc.num_qubits) if q not in outs]
    for q in scratch:
        if cols[q]:
            bad.append({"qubit": q, "role": "scratch", "why": "scratch qubit not returned to zero",
                        "wrong_rows": sim.popcount(cols[q]), "first_rows": sim.rows_of(cols[q], rows)})
    nontrivial = any(q in targeted for q in scratch)
    recycled = 0
    out = {"status": "ok", "rows": rows, "nontrivial": nontrivial,
           "outcome": H.h12(([(g.__class__.__name__, tuple(w)) for g, w, p in qc.gates], sorted(outs), n)),
           "counters": {"cases_with_scratch": int(bool(scratch)), "scratch_qubits": len(scratch)}}
    if bad:
        out["status"] = "violation"
        out["detail"] = {"bad": bad[:4], "n_inputs": n, "num_qubits": qc.num_qubits, "outputs": sorted(outs),
                         "expressions": [str(e) for e in qf.expressions][:12],
                         "gates": [(g.__class__.__name__, w) for g, w, p in qc.gates][:80]}
        out["digest"] = H.h12([(b["qubit"], b["why"], b["wrong_rows"], b["first_rows"]) for b in bad])
    return out
