"""C10 — compilation is pure: no dependence on, or damage to, earlier work.

Explicit-state search over sequences of public API operations on the live interpreter (DESIGN.md §3.4).
os.fork() is the snapshot operation: a process that *is in* state s forks once per enabled operation; the
child performs the operation on the real objects, evaluates the invariants, hashes its new canonical state
and, if the state is new and the depth bound not reached, continues from there.  The parent is untouched.
"""
import ast
import hashlib
import json
import os
import pickle
import subprocess
import sys
import traceback
import types

from .. import harness as H

ID = "C10"

META = {
    "rule": "states = canonical interpreter states (content of every qlasskit.* module namespace incl. function code hashes and default "
            "arguments + fingerprints of all live objects) reached by sequences of public API operations from a menu (compile of 15 sources incl. two "
            "bodies under one name, names that are globals of the library, a function called oracle, one called swap, bodies with if-statements "
            "that make the front end generate names, a parameterised caller with defs= bound repeatedly; bind; defs= composition; oraclize; Grover "
            "with and without element; DeutschJozsa; BernsteinVazirani; Simon; export qasm/qiskit/cirq/sympy; decompile; circuit optimizer; "
            "truth_table; compile of a callable). os.fork() snapshots the interpreter so that sibling operations start from exactly the same state; "
            "states are deduplicated by hash. On EVERY transition: (no damage) the fingerprint of every live object is unchanged; (no dependence) "
            "the operation's result fingerprint equals the one obtained when the operation runs right after creating its operands in a pristine "
            "interpreter; (no breakage) it raises iff the reference raises, with the same exception type. Non-trivial = transition from a "
            "non-initial state; distinct = distinct canonical states.",
    "bound": {"quick": "all operation sequences of length <= 2; length <= 3 below compile of a library-global name / a function called oracle / a callee "
                       "(deduplicated by state); qiskit/cirq observers at length <= 2 below two first operations",
              "thorough": "all operation sequences of length <= 3; length <= 4 below compile of a library-global name / a function called oracle / a "
                          "callee / a body with an if-statement; qiskit/cirq observers at length <= 2 below every first operation and <= 3 below three"},
    "assumptions": ["two interpreter states that agree on the canonical form have the same futures (sympy caches and object addresses are not "
                    "branched on by library code)",
                    "the reference fingerprints are validated against a genuinely fresh interpreter (python -c, same hash seed) in the conformance step"],
    "explanation": "states = canonical interpreter states; transitions = API operations executed on the live objects in forked snapshots.",
    "case_cap_s": 3000,
    # fork() is serialised by the kernel in this sandbox: concurrent explorers are slower than one (measured 140 s with 1 worker,
    # 170 s with 2, 255 s with 16), so the search runs in one worker process
    "max_procs": 1,
}

# ------------------------------------------------------------------------------------------------ pool
SRC = {
    "A": "def fa(a: bool, b: bool) -> bool:\n    return a and not b\n",
    "A2": "def fa(a: bool, b: bool) -> bool:\n    return a or b\n",           # same name, other body
    "Q": "def fq(x: Qint[2]) -> bool:\n    return x == 2\n",
    "V": "def fv(x: Qint[2]) -> Qint[2]:\n    return x + 1\n",
    "P": "def fp(a: Qint[2], p: Parameter[Qint[2]]) -> Qint[2]:\n    return a + p\n",
    "K": "def copy(a: bool) -> bool:\n    return not a\n",                    # a global of qlasskit/qlassfun.py
    "K2": "def ast2ast(a: bool, b: bool) -> bool:\n    return a ^ b\n",        # a function the library itself calls
    "K3": "def flatten(x: Qint[2]) -> bool:\n    return x[0]\n",
    "O": "def oracle(x: Qint[2]) -> bool:\n    return x == 1\n",              # the default name used by oraclize
    "I": "def fi(a: bool, b: bool) -> bool:\n    c = a\n    if b:\n        c = not a\n    return c\n",        # generated names (_iftargN) when compiled with fastOptimizer
    "I2": "def fj(x: Qint[2], b: bool) -> Qint[2]:\n    c = x\n    if b:\n        c = x + 1\n    else:\n        c = x ^ 1\n    return c\n",
    "S": "def swap(a: bool, b: bool) -> bool:\n    return a ^ b\n",           # the name of a QuantumCircuit attribute
    "T": "def ft(x: Tuple[bool, bool]) -> bool:\n    return x[0] and x[1]\n",
    # a sub-expression shared by two results: the optimizer invents a name for it
    "C": "def fc(a: bool, b: bool, c: bool, d: bool) -> Tuple[bool, bool]:\n    return ((a ^ b) and c, (a ^ b) and d)\n",
}
CALLER = "def caller(a: Qint[2]) -> Qint[2]:\n    return fv(a) ^ 1\n"
# a parameterised caller of a compiled function (its own private copy of fv): every bind re-translates with the same definitions
PCALLER = "def pcaller(a: Qint[2], p: Parameter[Qint[2]]) -> Qint[2]:\n    return fv(a) + p\n"


def py_callable():
    ns = {}
    exec("from qlasskit import Qint\ndef fcall(a: bool, b: bool) -> bool:\n    return a ^ b\n", ns)
    return ns["fcall"]


HEAVY = ("export:A:qiskit", "export:A:cirq", "gate:Q:qiskit", "gate:S:qiskit", "export_mut:A:qiskit")


def menu(heavy=True):
    """(op name, required slots, kind) — operations are enabled when their operand slots exist.
    heavy=False leaves out the three observers that need qiskit / cirq loaded (they make fork() expensive);
    those are explored by dedicated shallow shards."""
    return [o for o in _menu() if heavy or o[0] not in HEAVY]


def _menu():
    ops = []
    for p in SRC:
        ops.append(("compile:" + p, [], "create"))
    ops.append(("compile:PD", [], "create"))
    ops.append(("bindd:1", ["PD"], "create"))
    ops.append(("bindd:3", ["PD"], "create"))
    ops.append(("bind:P:1", ["P"], "create"))
    ops.append(("bind:P:2", ["P"], "create"))
    ops.append(("compose:V", ["V"], "create"))
    ops.append(("oraclize:V:2", ["V"], "create"))
    ops.append(("oraclize:O:True", ["O"], "create"))
    ops.append(("grover:Q", ["Q"], "create"))
    ops.append(("grover:O", ["O"], "create"))
    ops.append(("grover_true:Q", ["Q"], "create"))
    ops.append(("grover_el:V:2", ["V"], "create"))
    ops.append(("dj:Q", ["Q"], "create"))
    ops.append(("dj:T", ["T"], "create"))
    ops.append(("bv:Q", ["Q"], "create"))
    ops.append(("simon:V", ["V"], "create"))
    for fmt in ("qasm", "qiskit", "sympy", "cirq"):
        ops.append(("export:A:" + fmt, ["A"], "observe"))
    ops.append(("export:V:qasm", ["V"], "observe"))
    ops.append(("export_mut:A:qiskit", ["A"], "observe"))
    ops.append(("decompile:A", ["A"], "observe"))
    ops.append(("decopt:V", ["V"], "observe"))
    ops.append(("truth:A", ["A"], "observe"))
    ops.append(("truth:V", ["V"], "observe"))
    ops.append(("gate:Q:qiskit", ["Q"], "observe"))
    ops.append(("gate:S:qiskit", ["S"], "observe"))
    ops.append(("export:S:qasm", ["S"], "observe"))
    ops.append(("export:I:qasm", ["I"], "observe"))
    ops.append(("encode:V", ["V"], "observe"))
    return ops


# ------------------------------------------------------------------------------------------------ fingerprints
def gl(qc):
    out = []
    for g, w, p in qc.gates:
        out.append((g.__class__.__name__, g.gate.__class__.__name__ if hasattr(g, "gate") else None, tuple(w), repr(p)))
    return out


def fp_circuit(qc):
    return (qc.name, qc.num_qubits, gl(qc), sorted(qc.qubit_map.items()))


def fp_obj(o):
    """Observable state of a live object."""
    from qlasskit.qlassfun import QlassF, UnboundQlassf
    if isinstance(o, UnboundQlassf):
        return ("unbound", ast.dump(o.fun_ast), sorted(o.parameters))
    if isinstance(o, QlassF):
        d = ["qlassf", o.name, [(a.name, str(a.ttype), list(a.bitvec)) for a in o.args],
             (o.returns.name, str(o.returns.ttype), list(o.returns.bitvec)), [(str(s), str(e)) for s, e in o.expressions]]
        if hasattr(o, "_qcircuit"):
            d.append(fp_circuit(o._qcircuit))
            for attr in ("input_qubits", "output_qubits"):
                try:
                    d.append(list(getattr(o, attr)))
                except Exception as e:
                    d.append("raises " + type(e).__name__)
        d.append(callable(o.original_f))
        return tuple(map(repr, d))
    if hasattr(o, "_qcircuit"):  # an algorithm object
        d = [type(o).__name__, fp_circuit(o._qcircuit)]
        try:
            d.append(list(o.output_qubits))
        except Exception as e:
            d.append("raises " + type(e).__name__)
        return tuple(map(repr, d))
    return ("value", repr(o))


def plain(v, depth=0):
    if depth > 4:
        return "..."
    if isinstance(v, (int, float, str, bool, bytes, type(None))):
        return repr(v)
    if isinstance(v, (list, tuple)):
        return [plain(x, depth + 1) for x in v]
    if isinstance(v, (set, frozenset)):
        return sorted(str(plain(x, depth + 1)) for x in v)
    if isinstance(v, dict):
        return sorted((str(k), str(plain(x, depth + 1))) for k, x in v.items())
    if isinstance(v, types.FunctionType):
        return ("fn", v.__module__, v.__qualname__, hashlib.sha1(v.__code__.co_code).hexdigest()[:10],
                plain(v.__defaults__, depth + 1), plain(v.__kwdefaults__, depth + 1))
    if isinstance(v, type):
        return ("class", v.__module__, v.__qualname__)
    if isinstance(v, types.ModuleType):
        return ("module", v.__name__)
    return ("obj", type(v).__module__, type(v).__qualname__)


def module_state():
    """Canonical content of every qlasskit.* module namespace.  Immutable / code objects are represented by their
    identity (stable across fork() for everything created before the snapshot; an object created later compares
    different in different lineages, which only makes the partition finer, never coarser); mutable containers,
    function defaults and class attributes are represented by content."""
    out = []
    for name in sorted(sys.modules):
        if name != "qlasskit" and not name.startswith("qlasskit."):
            continue
        m = sys.modules[name]
        if m is None:
            continue
        items = []
        for k, v in sorted(vars(m).items()):
            if k.startswith("__") and k.endswith("__"):
                continue
            if isinstance(v, types.FunctionType):
                items.append((k, id(v), id(v.__code__), plain(v.__defaults__), plain(v.__kwdefaults__)))
            elif isinstance(v, (list, dict, set)):
                items.append((k, plain(v)))
            elif isinstance(v, type) and v.__module__ == name:
                sub = []
                for ck, cv in sorted(vars(v).items()):
                    if isinstance(cv, (staticmethod, classmethod)):
                        cv = cv.__func__
                    if isinstance(cv, types.FunctionType):
                        sub.append((ck, id(cv), id(cv.__code__), plain(cv.__defaults__), plain(cv.__kwdefaults__)))
                    elif isinstance(cv, (list, dict, set)):
                        sub.append((ck, plain(cv)))
                    else:
                        sub.append((ck, id(cv)))
                items.append((k, id(v), sub))
            else:
                items.append((k, id(v)))
        out.append((name, items))
    return out


def state_hash(slots):
    h = hashlib.sha1()
    h.update(repr(module_state()).encode())
    for k in sorted(slots):
        h.update(k.encode())
        h.update(repr(fp_obj(slots[k])).encode())
    return h.hexdigest()[:20]


# ------------------------------------------------------------------------------------------------ operations
def perform(op, slots):
    """Execute op on the live objects; returns (new slot name or None, result object / observation)."""
    from qlasskit import qlassf
    from qlasskit.algorithms import BernsteinVazirani, DeutschJozsa, Grover, Simon, oraclize
    parts = op.split(":")
    k = parts[0]
    if k == "compile":
        p = parts[1]
        if p == "PD":
            return p, qlassf(PCALLER, defs=[qlassf(SRC["V"])])
        if p in ("I", "I2"):
            from qlasskit.boolopt import fastOptimizer
            o = qlassf(SRC[p], bool_optimizer=fastOptimizer)
        else:
            o = qlassf(SRC[p])
        return p, o
    if k == "bindd":
        return "PD(%s)" % parts[1], slots["PD"].bind(p=int(parts[1]))
    if k == "bind":
        return "P(%s)" % parts[2], slots["P"].bind(p=int(parts[2]))
    if k == "compose":
        return "caller", qlassf(CALLER, defs=[slots[parts[1]]])
    if k == "oraclize":
        y = parts[2]
        return "orc:" + parts[1], oraclize(slots[parts[1]], True if y == "True" else int(y))
    if k == "grover":
        return "grover:" + parts[1], Grover(slots[parts[1]])
    if k == "grover_true":
        return "grovertrue:" + parts[1], Grover(slots[parts[1]], True)
    if k == "export_mut":
        # what export() hands out belongs to the caller: adding measurements to it must not show in the next export
        r = slots[parts[1]].export(parts[2])
        first = [(i.operation.name, [r.find_bit(q).index for q in i.qubits]) for i in r.data]
        r.measure_all()
        r2 = slots[parts[1]].export(parts[2])
        second = [(i.operation.name, [r2.find_bit(q).index for q in i.qubits]) for i in r2.data]
        if second != first:
            return None, "EXPORT-DAMAGED: the export after the caller changed the first exported object differs from the first export: %r" % (second[-3:],)
        return None, second
    if k == "grover_el":
        return "groverel:" + parts[1], Grover(slots[parts[1]], int(parts[2]))
    if k == "dj":
        return "dj:" + parts[1], DeutschJozsa(slots[parts[1]])
    if k == "bv":
        return "bv:" + parts[1], BernsteinVazirani(slots[parts[1]])
    if k == "simon":
        return "simon:" + parts[1], Simon(slots[parts[1]])
    if k == "export":
        r = slots[parts[1]].export(parts[2])
        if parts[2] == "qiskit":
            return None, [(i.operation.name, [r.find_bit(q).index for q in i.qubits]) for i in r.data]
        return None, str(r)
    if k == "gate":
        g = slots[parts[1]].gate(parts[2])
        return None, (g.name, g.num_qubits)
    if k == "decompile":
        from qlasskit.decompiler import Decompiler
        res = Decompiler().decompile(slots[parts[1]].circuit())
        return None, [(s.index, [(str(a), str(b)) for a, b in s.expressions]) for s in res]
    if k == "decopt":
        from qlasskit.decompiler import circuit_boolean_optimizer
        return None, gl(circuit_boolean_optimizer(slots[parts[1]].circuit()))
    if k == "truth":
        return None, [[str(x) for x in row] for row in slots[parts[1]].truth_table()]
    if k == "encode":
        from qlasskit import Qint2
        o = slots[parts[1]]
        return None, (o.encode_input(Qint2(2)), repr(o.decode_output("01")))
    raise ValueError(op)


def result_fp(slot, res):
    return repr(fp_obj(res)) if slot is not None else repr(res)


def run_op(op, slots):
    """-> (status, fp or exception type name, slot, obj)"""
    try:
        slot, res = perform(op, slots)
        return "ok", result_fp(slot, res), slot, res
    except Exception as e:
        return "raises", type(e).__name__ + ":" + str(e)[:80], None, None


def enabled(slots, ops):
    return [op for op, need, kind in ops if all(n in slots for n in need)]


def prereq_history(op, ops):
    need = dict((o, n) for o, n, k in ops)[op]
    return ["compile:" + n for n in need]


# ------------------------------------------------------------------------------------------------ references
def in_child(fn):
    """Run fn() in a forked child and return its (picklable) result; the caller's state is untouched."""
    r, w = os.pipe()
    pid = os.fork()
    if pid == 0:
        try:
            os.close(r)
            try:
                out = ("ok", fn())
            except BaseException:
                out = ("err", traceback.format_exc()[-3000:])
            with os.fdopen(w, "wb") as f:
                pickle.dump(out, f)
        finally:
            os._exit(0)
    os.close(w)
    with os.fdopen(r, "rb") as f:
        data = f.read()
    os.waitpid(pid, 0)
    if not data:
        raise RuntimeError("child died without reporting")
    st, val = pickle.loads(data)
    if st == "err":
        raise RuntimeError("child failed:\n" + val)
    return val


def preload(heavy=True):
    import qlasskit  # noqa
    import qlasskit.algorithms  # noqa
    import qlasskit.decompiler  # noqa
    for m in (("qiskit", "cirq") if heavy else ()) + ("sympy.physics.quantum.gate",):
        try:
            __import__(m)
        except Exception:
            pass
    from qlasskit import QCircuit
    q = QCircuit(1)
    q.x(0)
    for fw in (("qiskit", "cirq") if heavy else ()) + ("sympy", "qasm"):
        try:
            q.export("circuit", fw)
        except Exception:
            pass


def compute_refs(heavy=True):
    """Reference result of every op: pristine interpreter -> create operands -> op."""
    ops = menu(heavy)
    refs = {}
    for op, need, kind in ops:
        def one(op=op):
            slots = {}
            for pre in prereq_history(op, ops):
                st, fp, slot, obj = run_op(pre, slots)
                if st != "ok":
                    return ("prereq-raises", fp)
                slots[slot] = obj
            st, fp, slot, obj = run_op(op, slots)
            return (st, fp)
        refs[op] = in_child(one)
    return refs


# ------------------------------------------------------------------------------------------------ explorer
def shards(tier):
    """One shard per (first operation, second operation): subtrees are explored in parallel, each with its own seen-set.
    The qiskit/cirq observers are explored by separate shards (one per first operation, length <= 2 / 3)."""
    ops = menu(False)
    out = []
    for op1, need1, kind1 in ops:
        if not need1 and (tier == "thorough" or op1 in ("compile:A", "compile:Q", "compile:S")):
            deep = tier == "thorough" and op1 in ("compile:A", "compile:Q", "compile:S")
            out.append({"first": op1, "second": None, "count_first": False, "depth": 3 if deep else 2, "heavy": True})
    for op1, need1, kind1 in ops:
        if need1:
            continue
        slots1 = {op1.split(":")[1]}
        seconds = [op for op, need, kind in ops if all(n in slots1 for n in need)]
        # quick: every history of length <= 2, and length 3 below the operations that touch names, oracles and callees;
        # thorough: one level deeper (a full depth-4 search is ~1M forked transitions at 80 ms each)
        if tier == "quick":
            depth = 3 if op1 in ("compile:K2", "compile:O", "compile:V", "compile:I", "compile:PD") else 2
        else:
            depth = 4 if op1 in ("compile:K2", "compile:O", "compile:V", "compile:I", "compile:PD") else 3
        for i, op2 in enumerate(seconds):
            out.append({"first": op1, "second": op2, "count_first": i == 0, "depth": depth, "heavy": False})
    return out


def cases(shard):
    d = dict(shard)
    d["key"] = "C10 histories starting with %s, %s (length <= %d)%s" % (shard["first"], shard["second"] or "*", shard["depth"],
                                                                        " incl. qiskit/cirq observers" if shard["heavy"] else "")
    yield d


_W = {}


def worker_refs():
    """Per worker process: preload once, compute the references once (in forked children, so that the worker stays pristine)."""
    if "refs" not in _W:
        preload(False)
        _W["refs"] = in_child(lambda: compute_refs(False))
    return _W["refs"]


def step(op, history, slots, refs):
    """Perform one transition in THIS process; returns the list of violations."""
    before = {k: fp_obj(v) for k, v in slots.items()}
    st, fp, slot, obj = run_op(op, slots)
    viol = []
    ref = refs[op]
    if ref[0] == "prereq-raises":
        pass
    elif st != ref[0]:
        viol.append({"invariant": "no breakage", "why": "%s here but %s in the reference" % (
            st + " " + (fp if st == "raises" else ""), ref[0] + " " + (ref[1] if ref[0] == "raises" else ""))})
    elif st == "raises" and fp.split(":")[0] != ref[1].split(":")[0]:
        viol.append({"invariant": "no breakage", "why": "raises %s, reference raises %s" % (fp, ref[1])})
    elif st == "ok" and "EXPORT-DAMAGED" in fp:
        viol.append({"invariant": "no damage", "why": fp[:300]})
    elif st == "ok" and fp != ref[1]:
        viol.append({"invariant": "no dependence", "why": "result differs from the same operation run right after creating its operands",
                     "here": fp[:400], "reference": ref[1][:400]})
    for k, v in slots.items():
        if st == "ok" and slot == k:
            continue
        try:
            now = fp_obj(v)
        except Exception as e:
            now = ("fingerprint raises", type(e).__name__)
        if now != before[k]:
            a, b = repr(before[k]), repr(now)
            i = next((j for j in range(min(len(a), len(b))) if a[j] != b[j]), min(len(a), len(b)))
            viol.append({"invariant": "no damage", "why": "live object %s changed" % k,
                         "before": a[max(0, i - 60):i + 100], "after": b[max(0, i - 60):i + 100]})
    if st == "ok" and slot is not None:
        slots[slot] = obj
    return [{"history": history + [op], **v} for v in viol]


def explore(history, slots, depth, maxdepth, refs, ops, seen, acc):
    """DFS from the current process state.  Mutates acc (stats, violations) and seen."""
    for op in enabled(slots, ops):
        def child(op=op):
            viol = step(op, history, slots, refs)
            h = state_hash(slots)
            sub = {"transitions": 1, "states": [], "viol": viol, "maxdepth": depth + 1, "nontrivial": 1 if history else 0}
            if h not in seen:
                seen.add(h)
                sub["states"].append(h)
                if depth + 1 < maxdepth and not viol:
                    acc2 = {"transitions": 0, "states": [], "viol": [], "maxdepth": depth + 1, "nontrivial": 0}
                    explore(history + [op], slots, depth + 1, maxdepth, refs, ops, seen, acc2)
                    for key in ("transitions", "nontrivial"):
                        sub[key] += acc2[key]
                    sub["states"] += acc2["states"]
                    sub["viol"] += acc2["viol"]
                    sub["maxdepth"] = max(sub["maxdepth"], acc2["maxdepth"])
            return sub
        sub = in_child(child)
        acc["transitions"] += sub["transitions"]
        acc["nontrivial"] += sub["nontrivial"]
        acc["states"] += sub["states"]
        seen.update(sub["states"])
        acc["viol"] += sub["viol"][:50]
        acc["maxdepth"] = max(acc["maxdepth"], sub["maxdepth"])


def run_case(case):
    heavy = case.get("heavy", False)
    refs = None if heavy else worker_refs()

    def subtree():
        nonlocal refs
        if heavy:
            preload(True)
            refs = in_child(lambda: compute_refs(True))
        ops = menu(heavy)
        seen = set()
        slots = {}
        acc = {"transitions": 0, "states": [], "viol": [], "maxdepth": 0, "nontrivial": 0}
        h0 = state_hash(slots)
        seen.add(h0)
        history = []
        firsts = (case["first"], case["second"]) if case["second"] else (case["first"],)
        for i, op in enumerate(firsts):
            v = step(op, history, slots, refs)
            history = history + [op]
            counted = (i == 1) or case["count_first"]
            h = state_hash(slots)
            if counted:
                acc["transitions"] += 1
                acc["nontrivial"] += 1 if i == 1 else 0
                acc["viol"] += v
                if h not in seen:
                    acc["states"].append(h)
            seen.add(h)
            acc["maxdepth"] = i + 1
            if v:
                return acc
        if heavy:
            # only transitions that involve a qiskit/cirq observer are new with respect to the light shards
            acc = {"transitions": 0, "states": [], "viol": [], "maxdepth": 0, "nontrivial": 0}
        if case["depth"] > len(firsts):
            explore(history, slots, len(firsts), case["depth"], refs, ops, seen, acc)
        return acc
    acc = in_child(subtree)
    out = {"status": "ok", "rows": acc["transitions"], "states": len(set(acc["states"])), "nontrivial": acc["nontrivial"] > 0,
           "outcome": H.h12(sorted(set(acc["states"]))),
           "counters": {"max_depth_reached": acc["maxdepth"], "transitions_from_non_initial_states": acc["nontrivial"]}}
    if acc["viol"]:
        best = {}
        for v in acc["viol"]:
            k = (v["invariant"], v["history"][-1], v["why"][:60])
            if k not in best or len(v["history"]) < len(best[k]["history"]):
                best[k] = v
        vs = sorted(best.values(), key=lambda v: (len(v["history"]), v["history"]))
        out["status"] = "violation"
        out["detail"] = {"bad": vs[:8], "n_violating_transitions": len(acc["viol"])}
        out["digest"] = H.h12(sorted(best.keys()))
    return out


def conformance(tier):
    """The fork-based references must equal those of a genuinely fresh interpreter (same hash seed)."""
    preload_refs = in_child(lambda: (preload(True), compute_refs(True))[1])
    env = dict(os.environ)
    r = subprocess.run([sys.executable, "-c", "import json,sys; sys.path.insert(0, %r); from mc.checks import c10; "
                        "print(json.dumps(c10.fresh_refs()))" % os.path.dirname(os.path.dirname(os.path.dirname(os.path.abspath(__file__))))],
                       capture_output=True, text=True, env=env, timeout=900)
    fails = []
    if r.returncode != 0:
        return 0, ["fresh interpreter reference run failed: " + r.stderr[-500:]]
    fresh = json.loads(r.stdout.strip().split("\n")[-1])
    n = 0
    for op, v in preload_refs.items():
        n += 1
        if list(v) != fresh.get(op):
            fails.append("reference of %s differs between the forked root and a fresh interpreter" % op)
    return n, fails


def fresh_refs():
    src = os.environ.get("QLASSKIT_SRC")
    if src and src not in sys.path:
        sys.path.insert(0, src)
    preload(True)
    return {k: list(v) for k, v in compute_refs(True).items()}
