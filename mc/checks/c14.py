"""C14 — circuit composition operators compose; operands are not modified."""
import itertools
import math

import numpy as np

from .. import circs, svsim
from .. import harness as H

ID = "C14"

NAMES = ["x", "cx", "h", "s", "cp", "swap", "barrier"]

META = {
    "rule": "states = (a) every (a, b, injective qubit map) with a from the pool of circuits of length <= 1 and b of length <= 2 over "
            "{x,cx,h,s,cp,swap,barrier} on 1-3 qubits, for append_circuit / + / += ; (b) repeat(k) k=1..3, copy(), copy(vanilla=True) on "
            "every pool circuit and every circuit of <= 2 MCtrl-built multi-controlled X / Z gates on 3 qubits; (c) remove_identities on every gate sequence up to length L over an alphabet of SHARED gate objects "
            "(so adjacent identical pairs exist) incl. barriers and multi-controlled X / Z built through MCtrl on the same qubits; (d) qft(l) followed by iqft(l) for every injective qubit list l on <= 4 qubits. "
            "Oracle: state-vector unitaries: U(b on map).U(a), U(b).U(a), U(a)^k, U(a), unchanged, identity; deep fingerprints of every operand "
            "are compared before/after the operation AND after mutating the result (appending a gate, overwriting a qubit index in place). "
            "Non-trivial = composition where b has a multi-qubit gate or the map is not the identity; distinct = distinct (operation, operands) texts.",
    "bound": {"quick": "pool a: length<=1, b: length<=2 (n<=3), all injective maps; remove_identities L<=4 on 2 qubits / L<=3 on 3 qubits; qft n<=4",
              "thorough": "pool a: length<=2 for n<=2; remove_identities L<=5 on 2 qubits / L<=4 on 3 qubits"},
    "assumptions": ["svsim is the meaning of a circuit (cross-checked against qiskit)", "repeat(0) is outside 'n-fold for all n >= 1' and not judged"],
    # a case is a BLOCK of circuits (all sequences below a two-letter prefix): the per-case CPU cap is sized for a block
    "case_cap_s": 900,
    "explanation": "states = composition instances; transitions = composition operations executed on real QCircuit objects.",
}

PHASE = math.pi / 4


def pool(n, L, names=None):
    A = circs.alphabet(n, names or NAMES, phases=(PHASE,))
    out = []
    for l in range(L + 1):
        for idxs in itertools.product(range(len(A)), repeat=l):
            out.append([A[i] for i in idxs])
    return out


def fp(qc):
    extra = tuple(tuple(sorted(getattr(qc, a))) for a in ("ancilla_lst", "free_ancilla_lst", "marked_ancillas") if hasattr(qc, a))
    comp = tuple((g.__class__.__name__, tuple(w), p) for g, w, p in getattr(qc, "gates_computed", []))
    return (circs.gl(qc), tuple(sorted(qc.qubit_map.items())), qc.num_qubits, qc.name, extra, comp)


def embed_unitary(b, nb, qmap, n):
    """Unitary on n qubits of circuit b (nb qubits) applied on qubits qmap[i]."""
    gates = [(g, [qmap[x] for x in w], p) for g, w, p in b.gates]
    return svsim.unitary(gates, n)


def shards(tier):
    out = []
    for na in (1, 2, 3):
        La = 1 if (tier == "quick" or na == 3) else 2
        npa = len(pool(na, La))
        for ia in range(npa):
            out.append({"k": "compose", "na": na, "La": La, "ia": ia})
    for n in (1, 2, 3):
        out.append({"k": "unary", "n": n, "L": 2})
    # copies of multi-controlled gates built through MCtrl (same shape, different inner gate), one after the other in one process
    out.append({"k": "unary", "n": 3, "L": 2, "names": ["mctrlx", "mcz"]})
    ri = [(2, 4), (3, 3)] if tier == "quick" else [(2, 5), (3, 4)]
    for n, L in ri:
        A = ri_alphabet(n)
        for sh in circs.shard_list(len(A), L, 2):
            d = dict(sh)
            d.update({"k": "ri", "n": n, "L": L})
            out.append(d)
    for n in (1, 2, 3, 4):
        out.append({"k": "qft", "n": n})
    return out


def cases(shard):
    d = dict(shard)
    d["key"] = "C14 " + " ".join("%s=%s" % (k, v) for k, v in sorted(shard.items()))
    yield d


RI_KINDS = ["X", "H", "S", "T", "Z", "CX", "CZ", "CP", "Swap", "Barrier", "MCtrlX", "MCtrlZ"]


def ri_alphabet(n):
    A = []
    for k in RI_KINDS:
        if k in ("X", "H", "S", "T", "Z"):
            A += [(k, (q,)) for q in range(n)]
        elif k in ("CX", "CP"):
            A += [(k, (a, b)) for a in range(n) for b in range(n) if a != b]
        elif k in ("CZ", "Swap"):
            A += [(k, (a, b)) for a in range(n) for b in range(a + 1, n)]
        elif k in ("MCtrlX", "MCtrlZ"):
            A += [(k, tuple(range(n)))] if n >= 2 else []
        else:
            A += [(k, ())]
    return A


def mutate_and_check(result, operands, fps, label, bad, desc):
    """Mutate `result` in the two ways a user can and make sure no operand notices."""
    from qlasskit.qcircuit import gates
    try:
        if hasattr(result, "add_ancilla"):
            a = result.add_ancilla()
            result.mark_ancilla(a)
            result.uncompute()
            result.get_free_ancilla()
        result.append(gates.X(), [0])
        for g, w, p in result.gates:
            if len(w) == 1 and result.num_qubits > 1:
                w[0] = (w[0] + 1) % result.num_qubits  # overwrite a qubit index in place
                break
        result.qubit_map["__mut"] = 0
    except Exception as e:
        bad.append({"op": label, "what": desc, "problem": "mutating the result raised %s" % H.exc_name(e)})
        return
    for o, f, nm in zip(operands, fps, "ab"):
        if fp(o) != f:
            bad.append({"op": label, "what": desc, "problem": "mutating the result changed operand %s (aliasing)" % nm})


def run_compose(case, bad):
    from qlasskit import QCircuit
    na = case["na"]
    aseq = pool(na, case["La"])[case["ia"]]
    states = rows = nontriv = 0
    for nb in range(1, na + 1):
        for bseq in pool(nb, 2):
            for qmap in itertools.permutations(range(na), nb):
                a = circs.make(na, aseq)
                b = circs.make(nb, bseq)
                fa, fb = fp(a), fp(b)
                Ua = svsim.unitary(a.gates, na)
                want = embed_unitary(b, nb, qmap, na) @ Ua
                desc = "a=%s (n=%d) b=%s (n=%d) map=%s" % (circs.text(aseq, range(len(aseq))) if False else aseq, na, bseq, nb, list(qmap))
                states += 1
                if list(qmap) != list(range(nb)) or any(len(l) > 2 for l in bseq):
                    nontriv += 1
                # append_circuit
                try:
                    r = a.append_circuit(b, list(qmap))
                    rows += 1
                    if fp(b) != fb:
                        bad.append({"op": "append_circuit", "what": desc, "problem": "operand b modified"})
                    if a.num_qubits != na:
                        bad.append({"op": "append_circuit", "what": desc, "problem": "num_qubits changed"})
                    elif not svsim.close(svsim.unitary(a.gates, na), want):
                        bad.append({"op": "append_circuit", "what": desc, "problem": "result is not b on the mapped qubits after a"})
                    mutate_and_check(a, [b], [fb], "append_circuit", bad, desc)
                except Exception as e:
                    bad.append({"op": "append_circuit", "what": desc, "problem": "raised %s: %s" % (H.exc_name(e), str(e)[:60])})
                if list(qmap) == list(range(nb)):
                    # a + b and a += b (b on the first qubits)
                    a = circs.make(na, aseq)
                    b = circs.make(nb, bseq)
                    fa, fb = fp(a), fp(b)
                    try:
                        r = a + b
                        rows += 1
                        if fp(a) != fa or fp(b) != fb:
                            bad.append({"op": "+", "what": desc, "problem": "an operand was modified"})
                        if r.num_qubits != na or not svsim.close(svsim.unitary(r.gates, na), want):
                            bad.append({"op": "+", "what": desc, "problem": "result is not the sequential composition"})
                        mutate_and_check(r, [a, b], [fa, fb], "+", bad, desc)
                    except Exception as e:
                        bad.append({"op": "+", "what": desc, "problem": "raised %s: %s" % (H.exc_name(e), str(e)[:60])})
                    a = circs.make(na, aseq)
                    b = circs.make(nb, bseq)
                    fb = fp(b)
                    try:
                        a += b
                        rows += 1
                        if fp(b) != fb:
                            bad.append({"op": "+=", "what": desc, "problem": "operand b modified"})
                        if a.num_qubits != na or not svsim.close(svsim.unitary(a.gates, na), want):
                            bad.append({"op": "+=", "what": desc, "problem": "result is not the sequential composition"})
                        mutate_and_check(a, [b], [fb], "+=", bad, desc)
                    except Exception as e:
                        bad.append({"op": "+=", "what": desc, "problem": "raised %s: %s" % (H.exc_name(e), str(e)[:60])})
                if len(bad) > 40:
                    return states, rows, nontriv
    return states, rows, nontriv


def make_kind(kind, n, seq):
    """A plain QCircuit or a QCircuitEnhanced with one used ancilla (the compiler's working object)."""
    if kind == "plain":
        return circs.make(n, seq)
    from qlasskit.qcircuit import QCircuitEnhanced
    qc = circs.build(QCircuitEnhanced(n), seq)
    a = qc.add_ancilla(is_free=False)
    qc.cx(0, a)
    qc.mark_ancilla(a)
    return qc


def run_unary(case, bad):
    n0 = case["n"]
    states = rows = nontriv = 0
    for kind in ("plain", "enhanced"):
      n = n0 if kind == "plain" else n0 + 1
      for seq in pool(n0, case["L"], case.get("names")):
          desc = "%s circuit a=%s (n=%d)" % (kind, seq, n)
          states += 1
          if any(len(l) > 2 for l in seq):
              nontriv += 1
          for k in (1, 2, 3):
              a = make_kind(kind, n0, seq)
              fa = fp(a)
              U = svsim.unitary(a.gates, n)
              try:
                  r = a.repeat(k)
                  rows += 1
                  if fp(a) != fa:
                      bad.append({"op": "repeat(%d)" % k, "what": desc, "problem": "operand modified"})
                  if r.num_qubits != n or not svsim.close(svsim.unitary(r.gates, n), np.linalg.matrix_power(U, k)):
                      bad.append({"op": "repeat(%d)" % k, "what": desc, "problem": "result is not the %d-fold composition" % k})
                  mutate_and_check(r, [a], [fa], "repeat(%d)" % k, bad, desc)
              except Exception as e:
                  bad.append({"op": "repeat(%d)" % k, "what": desc, "problem": "raised %s: %s" % (H.exc_name(e), str(e)[:60])})
          for vanilla in (False, True):
              a = make_kind(kind, n0, seq)
              a.qubit_map["extra_name"] = 0
              fa = fp(a)
              U = svsim.unitary(a.gates, n)
              try:
                  r = a.copy(vanilla=vanilla)
                  rows += 1
                  if fp(a) != fa:
                      bad.append({"op": "copy(vanilla=%s)" % vanilla, "what": desc, "problem": "operand modified"})
                  if r.num_qubits != n or not svsim.close(svsim.unitary(r.gates, n), U):
                      bad.append({"op": "copy(vanilla=%s)" % vanilla, "what": desc, "problem": "the copy is not an equal circuit"})
                  if not vanilla and fp(r) != fa:
                      bad.append({"op": "copy()", "what": desc, "problem": "the copy differs from its source"})
                  if vanilla and dict(r.qubit_map) != {"q%d" % i: i for i in range(n)}:
                      bad.append({"op": "copy(vanilla=True)", "what": desc, "problem": "mapping info not reset"})
                  mutate_and_check(r, [a], [fa], "copy(vanilla=%s)" % vanilla, bad, desc)
              except Exception as e:
                  bad.append({"op": "copy(vanilla=%s)" % vanilla, "what": desc, "problem": "raised %s: %s" % (H.exc_name(e), str(e)[:60])})
          if len(bad) > 40:
              break
    return states, rows, nontriv


def run_ri(case, bad):
    from qlasskit.qcircuit import QCircuitEnhanced, gates
    n = case["n"]
    A = ri_alphabet(n)
    states = rows = nontriv = 0
    for idxs in circs.seqs(A, case["L"], {"prefix": case["prefix"], "short": case.get("short", False)}):
        shared = {k: getattr(gates, k)() for k in RI_KINDS if not k.startswith("MCtrl")}
        shared["MCtrlX"] = gates.MCtrl(gates.X(), n - 1)
        shared["MCtrlZ"] = gates.MCtrl(gates.Z(), n - 1)
        qc = QCircuitEnhanced(n)
        for i in idxs:
            k, w = A[i]
            qc.append(shared[k], list(w), PHASE if k == "CP" else None)
        states += 1
        rows += 1
        if any(idxs[j] == idxs[j + 1] for j in range(len(idxs) - 1)):
            nontriv += 1
        U = svsim.unitary(qc.gates, n)
        desc = "remove_identities on %s (n=%d, one shared gate object per kind)" % (" ".join("%s%s" % (A[i][0], list(A[i][1])) for i in idxs) or "(empty)", n)
        try:
            qc.remove_identities()
            if qc.num_qubits != n or not svsim.close(svsim.unitary(qc.gates, n), U):
                bad.append({"op": "remove_identities", "what": desc, "problem": "the action of the circuit changed",
                            "result": [(a, c) for a, b, c, d in circs.gl(qc)]})
        except Exception as e:
            bad.append({"op": "remove_identities", "what": desc, "problem": "raised %s: %s" % (H.exc_name(e), str(e)[:60])})
        if len(bad) > 40:
            break
    return states, rows, nontriv


def run_qft(case, bad):
    from qlasskit import QCircuit
    n = case["n"]
    states = rows = nontriv = 0
    I = np.eye(1 << n, dtype=complex)
    for k in range(1, n + 1):
        for l in itertools.permutations(range(n), k):
            qc = QCircuit(n)
            states += 1
            nontriv += 1 if k > 1 else 0
            desc = "qft(%s) then iqft(%s) on %d qubits" % (list(l), list(l), n)
            try:
                qc.qft(list(l))
                Uq = svsim.unitary(qc.gates, n)
                qc.iqft(list(l))
                rows += 2
                if not svsim.close(svsim.unitary(qc.gates, n), I, 1e-9):
                    bad.append({"op": "qft/iqft", "what": desc, "problem": "iqft does not undo qft"})
                if k == 1 and not svsim.close_up_to_phase(Uq @ Uq.conj().T, I):
                    bad.append({"op": "qft", "what": desc, "problem": "not unitary"})
            except Exception as e:
                bad.append({"op": "qft/iqft", "what": desc, "problem": "raised %s: %s" % (H.exc_name(e), str(e)[:60])})
    return states, rows, nontriv


def run_case(case):
    bad = []
    k = case["k"]
    fn = {"compose": run_compose, "unary": run_unary, "ri": run_ri, "qft": run_qft}[k]
    states, rows, nontriv = fn(case, bad)
    out = {"status": "ok", "rows": rows, "states": states, "nontrivial": nontriv > 0, "outcome": H.h12(case["key"]),
           "counters": {"nontrivial_instances": nontriv}}
    if bad:
        out["status"] = "violation"
        out["detail"] = {"bad": bad[:6], "n_bad": len(bad)}
        out["digest"] = H.h12(sorted(set((b["op"], b["problem"][:40]) for b in bad)))
    return out
