"""C06 — predicates compile to xor-oracles |x>|y> -> |x>|y xor f(x)>."""
from .. import harness as H
from .. import pyref, sim
from . import compiled_common as CC

ID = "C06"
CONFIGS = [("default", True), ("fast", True)]

META = {
    "rule": "cases = every bool-returning program of the bounded typed grammar x {default,fast} optimizer, uncompute=True; "
            "each circuit is simulated on ALL 2^n inputs twice: output qubit preset to 0 and to 1; the output must be y xor f(x) with f the Python "
            "predicate, arguments unchanged, scratch qubits zero. Non-trivial = f is "
            "non-constant, depends on >= 2 input bits; distinct = distinct truth tables of f among those.",
    "bound": {"quick": "bool-returning members of the C02 quick lists", "thorough": "bool-returning members of the C02 thorough lists"},
    "assumptions": [
        "bitsim is the meaning of a classical reversible circuit (cross-checked against the state-vector simulator)",
        "the flip pattern is compared both with the function's own return expression (boolev) and with the Python predicate executed by "
        "CPython on every input (pyref; rows whose intermediate values overflow are not judged)",
        "a program rejected with an exception is counted, not judged",
    ],
    "explanation": "states = compiled predicates; transitions = (input, initial output value) pairs simulated = 2 * 2^n per case.",
}


def shards(tier):
    return CC.shards(tier, CONFIGS)


cases = CC.cases


def run_case(case):
    qf, rej = CC.compile_case(case)
    if rej:
        return rej
    if qf.returns.ttype is not bool or len(qf.returns.bitvec) != 1:
        return {"status": "skipped", "rows": 0, "nontrivial": False, "outcome": "not-a-predicate"}
    qc = qf.circuit()
    bit = qf.returns.bitvec[0]
    if bit not in qc.qubit_map:
        return {"status": "violation", "rows": 0, "nontrivial": False, "outcome": "unmapped",
                "detail": {"why": "return bit not mapped to a qubit"}, "digest": "unmapped"}
    oq = qc.qubit_map[bit]
    env, M, names = H.expr_columns(qf)
    n = len(names)
    f = env[bit]
    rows = 1 << n
    bad = []
    for y in (0, 1):
        if oq < n:
            # the output aliases an argument qubit: it cannot be preset independently; the circuit is
            # not of the form |x>|y>  (this is a violation: the oracle would overwrite its input)
            bad.append({"y": y, "why": "output qubit is an argument qubit", "qubit": oq})
            break
        cols, M2, n2 = H.circuit_columns(qf, extra_init={oq: M if y else 0})
        want = f ^ (M if y else 0)
        d = cols[oq] ^ want
        if d:
            bad.append({"y": y, "qubit": oq, "role": "output", "why": "output is not y xor f(x)",
                        "wrong_rows": sim.popcount(d), "first_rows": sim.rows_of(d, rows)})
        for i in range(n):
            d = cols[i] ^ sim.col(i, n)
            if d:
                bad.append({"y": y, "qubit": i, "role": "argument", "why": "argument qubit changed",
                            "wrong_rows": sim.popcount(d), "first_rows": sim.rows_of(d, rows)})
        for q in range(n, qc.num_qubits):
            if q != oq and cols[q]:
                bad.append({"y": y, "qubit": q, "role": "scratch", "why": "scratch qubit not returned to zero",
                            "wrong_rows": sim.popcount(cols[q]), "first_rows": sim.rows_of(cols[q], rows)})
    counters = {}
    if not bad:
        # f itself: the Python predicate (CPython reference semantics), wherever that is determined
        try:
            pr = pyref.Program(case["src"])
            if pr.n_inputs() == n and pr.ret.width() == 1:
                want, care, und = pr.table(None)
                d = (f ^ want[0]) & care[0]
                counters["compared_with_python_predicate"] = 1
                if d:
                    bad.append({"y": 0, "qubit": oq, "role": "output", "why": "the circuit flips the output on inputs where the Python predicate is false (or not where it is true)",
                                "wrong_rows": sim.popcount(d), "first_rows": sim.rows_of(d, rows)})
        except pyref.Unsupported:
            counters["python_predicate_unsupported_by_reference"] = 1
    nontrivial = f not in (0, M) and CC.support_size(f, n, M) >= 2
    out = {"status": "ok", "rows": 2 * rows, "nontrivial": nontrivial, "outcome": H.h12((n, f)), "counters": counters}
    if bad:
        out["status"] = "violation"
        out["detail"] = {"bad": bad[:4], "n_inputs": n, "num_qubits": qc.num_qubits, "output_qubit": oq,
                         "expressions": [str(e) for e in qf.expressions][:12],
                         "gates": [(g.__class__.__name__, w) for g, w, p in qc.gates][:80]}
        out["digest"] = H.h12([(b.get("y"), b.get("qubit"), b["why"], b.get("wrong_rows"), b.get("first_rows")) for b in bad])
    return out
