"""C11 — decompiled expressions describe exactly what the gates do."""
from sympy import Symbol

from .. import circs, sim
from .. import harness as H

ID = "C11"

CONFIGS = {
    "quick": [
        {"name": "n3", "n": 3, "names": ["x", "cx", "ccx", "h", "swap", "barrier"], "L": 4},
        {"name": "n2reps", "n": 2, "names": ["x", "cx", "z", "s", "t", "y", "cz", "cp", "h", "swap", "barrier"], "L": 4},
        {"name": "n4mcx", "n": 4, "names": ["x", "mcx", "h", "barrier"], "L": 3},
        {"name": "n5fan", "n": 5, "names": ["fan"], "L": 4},
        {"name": "n2shared", "n": 2, "names": ["shared", "h", "barrier"], "L": 5},
    ],
    "thorough": [
        {"name": "n5fan", "n": 5, "names": ["fan", "h"], "L": 5},
        {"name": "n2shared", "n": 2, "names": ["shared", "h", "barrier"], "L": 6},
        {"name": "n3", "n": 3, "names": ["x", "cx", "ccx", "h", "swap", "barrier"], "L": 5},
        {"name": "n2", "n": 2, "names": ["x", "cx", "h", "swap", "barrier"], "L": 7},
        {"name": "n2reps", "n": 2, "names": ["x", "cx", "z", "s", "t", "y", "cz", "cp", "h", "swap", "barrier"], "L": 5},
        {"name": "n4mcx", "n": 4, "names": ["x", "cx", "mcx", "h", "barrier"], "L": 4},
    ],
}

META = {
    "rule": "states = every gate sequence up to length L over the stated alphabets (breadth-first: each circuit exactly once), built through "
            "the real QCircuit API; for each, Decompiler().decompile is compared with an independent 10-line scanner (maximal classical runs, "
            "barriers transparent): same sections in order, index range covering exactly the run's non-barrier gates, section.gates = the run, "
            "and the section expressions evaluated on ALL 2^n entry values equal the bit-parallel simulation of the run for every changed "
            "qubit (qubits without an expression unchanged). Circuits of length 1-3 are additionally taken through a history on the SAME object: decompile, replace the last gate by another letter (length unchanged), decompile again (up to 3 replacement letters), same oracle. Non-trivial = circuit with >= 1 classical run containing a multi-qubit gate; "
            "distinct = distinct gate lists.",
    "bound": {"quick": "n=3 {x,cx,ccx,h,swap,barrier} L<=4 (137k circuits); n=2 with one representative of every non-classical gate kind L<=4; "
                       "n=4 {x,mcx(3 controls),h,barrier} L<=3; n=5 register-to-scratch fan-out alphabet L<=4; n=2 with ONE shared X and ONE shared CX "
                       "gate object applied through append() (the same objects recur in several runs), h, barrier, L<=5",
              "thorough": "n=3 L<=5 (2.6M circuits); n=2 L<=7; representatives L<=5; n=4 with cx L<=4; n=5 register-to-scratch fan-out alphabet "
                          "(x on 3 register qubits, cx/ccx from the register onto 2 scratch qubits) L<=5 (quick: L<=4)"},
    "assumptions": ["the decompiler distinguishes non-classical gates only by type, so h (1 qubit) and swap (2 qubits) represent them at depth; "
                    "every other gate kind appears at short length to detect a change of that test",
                    "bitsim is the meaning of a classical run"],
    # a case is a BLOCK of circuits (all sequences below a two-letter prefix): the per-case CPU cap is sized for a block
    "case_cap_s": 900,
    "explanation": "states = circuits (gate sequences); transitions = gate appends through the real API plus per-section entry-value evaluations.",
}

CLASSICAL = ("X", "CX", "CCX", "MCX")


def shards(tier):
    out = []
    for cfg in CONFIGS[tier]:
        A = circs.alphabet(cfg["n"], cfg["names"])
        for sh in circs.shard_list(len(A), cfg["L"], 2):
            d = dict(sh)
            d["cfg"] = cfg
            out.append(d)
    return out


def cases(shard):
    cfg = shard["cfg"]
    yield {"cfg": cfg, "prefix": shard["prefix"], "short": shard.get("short", False),
           "key": "C11 %s L<=%d prefix=%s%s" % (cfg["name"], cfg["L"], shard["prefix"], "+short" if shard.get("short") else "")}


def expected_runs(gl):
    runs = []
    cur = None
    for i, (cls, base, w, p) in enumerate(gl):
        if cls in CLASSICAL:
            if cur is None:
                cur = []
            cur.append(i)
        elif cls == "Barrier":
            continue
        else:
            if cur:
                runs.append(cur)
            cur = None
    if cur:
        runs.append(cur)
    return runs


def check_circuit(qc, n):
    """-> list of problems (empty = ok)."""
    from qlasskit.decompiler import Decompiler
    gl = circs.gl(qc)
    before = list(gl)
    try:
        res = Decompiler().decompile(qc)
    except Exception as e:
        return ["decompile raised %s: %s" % (H.exc_name(e), str(e)[:80])]
    if circs.gl(qc) != before:
        return ["decompile modified its operand"]
    runs = expected_runs(gl)
    secs = list(res)
    if len(secs) != len(runs):
        return ["%d sections reported, %d maximal classical runs exist" % (len(secs), len(runs))]
    M = sim.mask(n)
    entry = {("q%d" % i): sim.col(i, n) for i in range(n)}
    for sec, run in zip(secs, runs):
        s, e = sec.index
        if not (0 <= s <= e <= len(gl)):
            return ["section index %r out of range" % (sec.index,)]
        inside = [i for i in range(s, e) if gl[i][0] != "Barrier"]
        if inside != run:
            return ["section index %r covers gates %r, the run is %r" % (sec.index, inside, run)]
        sg = [(g.__class__.__name__, tuple(w)) for g, w, p in sec.gates if g.__class__.__name__ != "Barrier"]
        rg = [(gl[i][0], gl[i][2]) for i in run]
        if sg != rg:
            return ["section.gates %r differ from the run %r" % (sg, rg)]
        cols = sim.bitsim([qc.gates[i] for i in run], n, {i: sim.col(i, n) for i in range(n)}, M)
        exps = {}
        for sym, ex in sec.expressions:
            nm = sym.name if isinstance(sym, Symbol) else str(sym)
            if nm in exps:
                return ["two expressions for %s" % nm]
            exps[nm] = ex
        for q in range(n):
            nm = "q%d" % q
            if nm in exps:
                try:
                    c = sim.ev(exps[nm], entry, M)
                except (KeyError, sim.Unsupported) as ex:
                    return ["expression of %s cannot be evaluated on the entry values: %s" % (nm, ex)]
                if c != cols[q]:
                    return ["expression of %s (%s) differs from the gates on %d entry values" % (nm, exps[nm], sim.popcount(c ^ cols[q]))]
            elif cols[q] != entry[nm]:
                return ["qubit %s is changed by the run but has no expression" % nm]
        for nm in exps:
            if nm not in entry:
                return ["expression for unknown qubit %s" % nm]
    return []


def run_case(case):
    cfg = case["cfg"]
    n = cfg["n"]
    A = circs.alphabet(n, cfg["names"])
    states = rows = 0
    nontriv = 0
    bad = []
    for idxs in circs.seqs(A, cfg["L"], {"prefix": case["prefix"], "short": case["short"]}):
        seq = [A[i] for i in idxs]
        qc = circs.make(n, seq)
        states += 1
        rows += len(seq) + (1 << n)
        if any(l[0] in ("cx", "ccx", "mcx") or (l[0] == "append_shared" and l[1] == "CX") for l in seq):
            nontriv += 1
        probs = check_circuit(qc, n)
        if not probs and 1 <= len(seq) <= 3:
            # history: the same circuit object, last gate replaced (length unchanged), decompiled again
            for alt in (A[0], A[len(A) // 2], A[-2 if len(A) > 1 else 0]):
                if alt == seq[-1]:
                    continue
                qc.gates.pop()
                if alt[0] == "append_shared":
                    continue_alt = [g for g, w, p in qc.gates if g.__class__.__name__ == alt[1]]
                    from qlasskit.qcircuit import gates as _G
                    circs.build(qc, [alt], {alt[1]: continue_alt[0] if continue_alt else getattr(_G, alt[1])()})
                else:
                    circs.build(qc, [alt])
                rows += 1 + (1 << n)
                p2 = check_circuit(qc, n)
                if p2:
                    probs = ["after replacing the last gate by %s%s on the same circuit object: %s" % (alt[0], list(alt[1:]), p2[0])]
                    break
        if probs:
            bad.append({"circuit": circs.text(A, idxs), "n": n, "problem": probs[0]})
            if len(bad) >= 20:
                break
    out = {"status": "ok", "rows": rows, "states": states, "nontrivial": nontriv > 0, "outcome": H.h12(case["key"]),
           "counters": {"circuits_with_multiqubit_classical_gate": nontriv}}
    if bad:
        out["status"] = "violation"
        out["detail"] = {"bad": bad[:5], "n_bad_in_block": len(bad)}
        out["digest"] = H.h12([(b["circuit"], b["problem"]) for b in bad])
    return out
