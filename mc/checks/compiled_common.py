"""Shared case generation / execution for the compiled-circuit properties C02, C03, C06."""
from .. import harness as H
from .. import progs, sim

FAMS = ["B", "I1", "S", "T", "M"]


def fams_available():
    return [f for f in FAMS if f in progs.FAMILIES]


def shards(tier, configs):
    out = []
    for sh in progs.prog_shards(fams_available(), tier):
        for cfg in configs:
            d = dict(sh)
            d["cfg"] = cfg
            out.append(d)
    return out


def cases(shard):
    cfg = shard["cfg"]
    for c in progs.prog_cases(shard):
        c = dict(c)
        c["profile"] = cfg[0]
        c["uncompute"] = cfg[1]
        c["key"] = "%s|unc=%d|%s" % (cfg[0], int(cfg[1]), c["src"])
        hist = shard["fam"] in ("T", "I1", "M") and shard.get("kind", "d1") == "d1" and cfg[0] == "default"
        if hist:
            # first, so that the compilation with the opposite flag is the first one this process sees for this source
            r = dict(c)
            r["recompile"] = "fresh"
            r["key"] = "after-opposite|" + c["key"]
            yield r
        yield c
        if hist:
            r = dict(c)
            r["recompile"] = "qlassfa"
            r["key"] = "via-qlassfa|" + c["key"]
            yield r
            r = dict(c)
            r["recompile"] = "same"
            r["key"] = "recompile|" + c["key"]
            yield r


def compile_case(case):
    """Returns (qf, None) or (None, result-dict for a rejection)."""
    try:
        if case.get("recompile") == "qlassfa":
            # the decorator-with-arguments entry point, relying on ITS defaults for everything the configuration leaves at the default
            from qlasskit import qlassfa
            kw = {}
            if case["profile"] != "default":
                kw["bool_optimizer"] = H.PROFILES[case["profile"]]
            if not case["uncompute"]:
                kw["uncompute"] = False
            qf = qlassfa(**kw)(case["src"])
        elif case.get("recompile") == "fresh":
            # the same source compiled into ANOTHER object with the opposite flag just before
            H.compile_src(case["src"], case["profile"], not case["uncompute"])
            qf = H.compile_src(case["src"], case["profile"], case["uncompute"])
        elif case.get("recompile"):
            # the same object compiled first with the opposite flag, then with the wanted one
            qf = H.compile_src(case["src"], case["profile"], not case["uncompute"])
            qf.compile("internal", uncompute=case["uncompute"])
        else:
            qf = H.compile_src(case["src"], case["profile"], case["uncompute"])
    except Exception as e:  # rejection by the front end or the compiler: not judged here
        return None, {"status": "rejected", "rows": 0, "nontrivial": False,
                      "outcome": "rej:" + H.exc_name(e), "counters": {"rejected_" + H.exc_name(e): 1}}
    if not hasattr(qf, "expressions") or not hasattr(qf, "circuit"):
        return None, {"status": "skipped", "rows": 0, "nontrivial": False, "outcome": "unbound"}
    return qf, None


def support_size(colv, n, M):
    """Number of input bits the column depends on."""
    k = 0
    for i in range(n):
        ci = sim.col(i, n)
        sh = 1 << i
        # compare cofactor x_i=0 with x_i=1
        lo = colv & (M ^ ci)
        hi = (colv & ci) >> sh
        if lo != hi:
            k += 1
    return k
