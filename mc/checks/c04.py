"""C04 — boolean optimizer profiles (and every single step) preserve meaning."""
from sympy import Symbol

from .. import exprs as X
from .. import harness as H
from .. import progs, sim

ID = "C04"

META = {
    "rule": "cases = (a) every expression of the bounded pool (all trees <= depth 2 over And/Or/Not/Xor/ITE/Implies on 3 (4) variables, n-ary "
            "3-4 literal sign patterns and their pairings) as the list [_ret = e]; (b) list templates with shared intermediates, "
            "temporaries, redefinitions and several return symbols; (c) the raw pre-optimizer lists the front end produces for the "
            "I1/S/T program families, plus every (input, output) pair of the per-expression CNF simplification. Each list is pushed "
            "through defaultOptimizer, fastOptimizer, each of the 7 single steps and every prefix of the default pipeline; oracle = "
            "bit-parallel evaluation on ALL assignments: every _ret symbol keeps its column, no undefined symbol is read. "
            "Non-trivial = some return column is non-constant and depends on >= 2 variables; distinct = distinct (list, columns) digests.",
    "bound": {"quick": "pool: 3 variables depth<=2 (~19k), n-ary k<=4, ~1k list templates, front-end lists of I1 depth-1 + S + T quick",
              "thorough": "pool adds 4-variable depth<=2 (~116k), ~3.3k list templates, front-end lists of the thorough families"},
    "assumptions": ["boolev (bit-parallel evaluator, cross-checked against sympy.subs) is the meaning of an expression list",
                    "symbols introduced by a step (cse's x0..) must be defined before use in the output list"],
    "explanation": "states = expression lists; transitions = (list, transformation, assignment) evaluations on the real optimizer code.",
}

STEP_NAMES = ["merge_expressions", "apply_cse", "remove_ITE", "remove_Implies", "transform_or2xor", "transform_or2and",
              "remove_obvious_expr"]


def _steps():
    from qlasskit.boolopt import bool_optimizer as bo
    from qlasskit.boolopt import exp_transformers as et
    return [bo.merge_expressions, bo.apply_cse, et.remove_ITE(), et.remove_Implies(), et.transform_or2xor(),
            et.transform_or2and(), et.remove_obvious_expr()]


def transformations():
    from qlasskit.boolopt import BoolOptimizerProfile, defaultOptimizer, fastOptimizer
    st = _steps()
    out = [("defaultOptimizer", defaultOptimizer.apply), ("fastOptimizer", fastOptimizer.apply)]
    for n, s in zip(STEP_NAMES, st):
        out.append(("step:" + n, BoolOptimizerProfile([s]).apply))
    for k in range(2, len(st)):
        out.append(("default-prefix:%d" % k, BoolOptimizerProfile(st[:k]).apply))
    for k in range(2, 5):
        out.append(("fast-prefix:%d" % k, BoolOptimizerProfile(st[2:2 + k]).apply))
    return out


CH = 400


def shards(tier):
    out = []
    n = len(X.pool_cached(tier))
    for lo in range(0, n, CH):
        out.append({"kind": "pool", "tier": tier, "lo": lo, "hi": min(n, lo + CH)})
    n = len(X.lists_cached(tier))
    for lo in range(0, n, 100):
        out.append({"kind": "lists", "tier": tier, "lo": lo, "hi": min(n, lo + 100)})
    fams = ["I1", "S", "T"]
    for sh in progs.prog_shards(fams, tier):
        if sh["fam"] == "I1" and sh.get("kind") == "d2" and tier == "quick":
            continue
        d = dict(sh)
        d["kind2"] = "prog"
        out.append(d)
    return out


def poison_lists():
    """Lists whose INTERMEDIATES carry the names that other lists use as inputs (a..e, dotted argument bits, cse's x0/x1).  They are run
    first in every shard: a transformation that keeps state between calls (a default argument that accumulates, a module-level
    table) then corrupts the lists that follow in the same process, which are judged against their own meaning."""
    from sympy import Symbol as S
    z0, z1, z2 = S("z0"), S("z1"), S("z2")
    a, b, c, d, e = [S(n) for n in "abcde"]
    out = [[(a, z0 & z1), (b, ~z0), (c, z0 ^ z2), (d, z1 | z2), (e, ~z1), (S("_ret"), (a ^ b) | (c & d & e))],
           [(S("x0"), z0 ^ z1), (S("x1"), S("x0") & z2), (S("x2"), ~S("x1")), (S("_ret.0"), S("x0") | S("x2")), (S("_ret.1"), S("x1") ^ z0)]]
    dotted = []
    for nm in ("a", "b", "c", "d", "t", "x", "y"):
        for i in range(4):
            dotted.append((S("%s.%d" % (nm, i)), (z0 if i % 2 else ~z0) & (z1 if i < 2 else z2)))
    dotted.append((S("_ret"), S("a.0") ^ S("b.1") ^ S("c.2") ^ S("x.3")))
    out.append(dotted)
    return out


def cases(shard):
    yield {"kind": "poison", "key": "poison lists before shard %s" % (sorted((k, str(v)) for k, v in shard.items() if k != "cfg"),)}
    if shard.get("kind2") == "prog":
        for c in progs.prog_cases(shard):
            yield {"kind": "prog", "src": c["src"], "key": "prog|" + c["src"]}
        return
    tier = shard["tier"]
    if shard["kind"] == "pool":
        p = X.pool_cached(tier)
        for i in range(shard["lo"], shard["hi"]):
            yield {"kind": "pool", "tier": tier, "i": i, "key": "_ret = %s" % p[i]}
    else:
        p = X.lists_cached(tier)
        for i in range(shard["lo"], shard["hi"]):
            yield {"kind": "lists", "tier": tier, "i": i, "key": X.as_key(p[i])}


def check_list(lst, inputs, bad, label_prefix=""):
    """Apply every transformation to lst; append violations to bad. Returns (rows, retcols)."""
    n = len(inputs)
    env0, M = sim.boolev_list(lst, inputs)
    rets = []
    for s, e in lst:
        if s.name.startswith("_ret") and s.name not in rets:
            rets.append(s.name)
    want = {r: env0[r] for r in rets}
    rows = 0
    for name, fn in transformations():
        try:
            out = fn(list(lst))
        except Exception as e:
            bad.append({"transformation": label_prefix + name, "why": "raised " + H.exc_name(e)})
            continue
        rows += 1 << n
        try:
            env1, _ = sim.boolev_list(out, inputs)
        except KeyError as e:
            bad.append({"transformation": label_prefix + name, "why": "undefined symbol read", "symbol": str(e),
                        "output": [str(x) for x in out][:10]})
            continue
        except sim.Unsupported as e:
            bad.append({"transformation": label_prefix + name, "why": "not a boolean expression", "what": str(e)[:80]})
            continue
        defined = set(s.name for s, e in out)
        for r in rets:
            if r not in defined:
                bad.append({"transformation": label_prefix + name, "why": "return symbol lost", "symbol": r})
            elif env1[r] != want[r]:
                d = env1[r] ^ want[r]
                bad.append({"transformation": label_prefix + name, "why": "return symbol changed meaning", "symbol": r,
                            "wrong_rows": sim.popcount(d), "first_rows": sim.rows_of(d, 1 << n),
                            "output": [str(x) for x in out][:10]})
    return rows, [want[r] for r in rets]


_cnf_pairs = []


def _install_cnf_probe():
    import qlasskit.ast2logic.t_ast as t_ast
    if getattr(t_ast, "_verif_probe", False):
        return
    real = t_ast.simplify_logic

    def probe(e, *a, **k):
        out = real(e, *a, **k)
        _cnf_pairs.append((e, out))
        return out

    t_ast.simplify_logic = probe
    t_ast._verif_probe = True


def run_case(case):
    from .compiled_common import support_size
    bad = []
    if case["kind"] == "prog":
        from qlasskit import qlassf
        from qlasskit.boolopt import BoolOptimizerProfile
        _install_cnf_probe()
        del _cnf_pairs[:]
        try:
            qf = qlassf(case["src"], to_compile=False, bool_optimizer=BoolOptimizerProfile([]))
        except Exception as e:
            return {"status": "rejected", "rows": 0, "nontrivial": False, "outcome": "rej:" + H.exc_name(e)}
        if not hasattr(qf, "args"):
            return {"status": "skipped", "rows": 0, "nontrivial": False, "outcome": "unbound"}
        inputs = H.input_names(qf)
        lst = list(qf.expressions)
        n = len(inputs)
        M = sim.mask(n)
        rows = 0
        # per-expression CNF simplification of translate_ast: output equivalent to input, no new symbol
        for (sym, e_in), (sym2, e_out) in _cnf_pairs and [(p[0], p[1]) for p in _cnf_pairs if isinstance(p[0], tuple)] or []:
            pass
        for e_in, e_out in _cnf_pairs:
            if not isinstance(e_in, tuple):
                continue
            s_in, x_in = e_in
            s_out, x_out = e_out
            syms = sorted(set(v.name for v in getattr(x_in, "free_symbols", set())) | set(v.name for v in getattr(x_out, "free_symbols", set())))
            if len(syms) > 12:
                continue
            new = set(v.name for v in getattr(x_out, "free_symbols", set())) - set(v.name for v in getattr(x_in, "free_symbols", set()))
            envs = {nm: sim.col(i, len(syms)) for i, nm in enumerate(syms)}
            Ms = sim.mask(len(syms))
            rows += 1 << len(syms)
            try:
                ci, co = sim.ev(x_in, envs, Ms), sim.ev(x_out, envs, Ms)
            except sim.Unsupported:
                continue
            if s_in != s_out or ci != co or new:
                bad.append({"transformation": "translate_ast:simplify_logic(cnf)", "why": "changed meaning or symbol",
                            "input": str(x_in)[:200], "output": str(x_out)[:200]})
        try:
            r2, retcols = check_list(lst, inputs, bad)
        except KeyError as e:
            # the raw list itself reads an undefined symbol (e.g. an unused tuple alias): not an optimizer matter
            return {"status": "skipped", "rows": rows, "nontrivial": False, "outcome": "raw-list-open"}
        rows += r2
    elif case["kind"] == "poison":
        rows = 0
        retcols = []
        n = 3
        M = sim.mask(n)
        inputs = ["z0", "z1", "z2"]
        lst = []
        for lst in poison_lists():
            r2, rc = check_list(lst, inputs, bad)
            rows += r2
            retcols += rc
    else:
        tier = case["tier"]
        if case["kind"] == "pool":
            e = X.pool_cached(tier)[case["i"]]
            lst = [(Symbol("_ret"), e)]
        else:
            lst = list(X.lists_cached(tier)[case["i"]])
        defined = set()
        inputs = []
        for s, e in lst:
            for v in sorted(getattr(e, "free_symbols", set()), key=lambda v: v.name):
                if v.name not in defined and v.name not in inputs:
                    inputs.append(v.name)
            defined.add(s.name)
        inputs.sort()
        n = len(inputs)
        M = sim.mask(n)
        rows, retcols = check_list(lst, inputs, bad)
    nontrivial = any(c not in (0, M) and support_size(c, n, M) >= 2 for c in retcols)
    out = {"status": "ok", "rows": rows, "nontrivial": nontrivial, "outcome": H.h12((case["key"][:50], n, retcols))}
    if bad:
        out["status"] = "violation"
        out["detail"] = {"bad": bad[:5], "inputs": inputs, "list": [str(x) for x in lst][:12]}
        out["digest"] = H.h12(sorted((b["transformation"], b["why"], b.get("symbol"), b.get("wrong_rows")) for b in bad))
    return out
