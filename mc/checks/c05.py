"""C05 — values survive the encode -> circuit -> decode round trip."""
from .. import harness as H
from .. import progs, pyref, sim, values
from . import compiled_common as CC

ID = "C05"

META = {
    "rule": "cases = every program of families T (all signature shapes: several arguments, nested tuples, lists, matrices, Qfixed, Qchar; "
            "results bool/int/fixed/char/nested tuple/list), I1 depth-1 (two integer arguments of mixed widths), S and the small B trees "
            "x optimizer profiles, compiled with uncompute. For EVERY argument value tuple v: encode_input(*v) must be the reference bit string, "
            "the circuit is run from that string, the output qubits are read in reported order (right-most character = first output qubit) and "
            "decode_output / decode_counts must give the value the function's expressions denote for v, in the return type. Structural: "
            "input_qubits = qubits of the argument bits in order, indices in range, len(output_qubits) = result width, shared output qubits carry "
            "equal columns. Non-trivial = >= 2 arguments or a non-scalar argument/result; distinct = distinct (signature, truth table) digests.",
    "bound": {"quick": "T quick list x {default,fast}; I1 depth-1 (2,2),(2,4),(4,2) x default; S quick x default; B trees <= 2 ops",
              "thorough": "same families from the thorough lists, both profiles"},
    "assumptions": ["measured strings use the documented convention: right-most character is the first listed qubit",
                    "expected value = value denoted by the function's own expressions (boolev) decoded by the reference decoder; those expressions are "
                    "additionally compared with the Python value of the source on every determined row (pyref), so f(v) is the source's f",
                    "bitsim is the meaning of the circuit"],
    "explanation": "states = compiled programs; transitions = argument value tuples pushed through encode -> circuit -> decode.",
}


def shards(tier):
    out = []
    for sh in progs.prog_shards(["T", "I1", "S", "B"], tier):
        fam = sh["fam"]
        if fam == "I1" and (sh.get("kind") != "d1" or (sh["wa"], sh["wb"]) not in ((2, 2), (2, 4), (4, 2))):
            continue
        if fam == "B" and sh.get("kind") != "trees_full":
            continue
        profs = ["default", "fast"] if (fam == "T" or tier == "thorough") else ["default"]
        for p in profs:
            d = dict(sh)
            d["profile"] = p
            out.append(d)
    return out


def cases(shard):
    for c in progs.prog_cases(shard):
        c = dict(c)
        c["profile"] = shard["profile"]
        c["uncompute"] = True
        c["key"] = "%s|%s" % (shard["profile"], c["src"])
        yield c


def run_case(case):
    qf, rej = CC.compile_case(case)
    if rej:
        return rej
    try:
        pr = pyref.Program(case["src"])
    except pyref.Unsupported:
        return {"status": "unjudged", "rows": 0, "nontrivial": False, "outcome": "unjudged"}
    names = H.input_names(qf)
    n = len(names)
    if n != pr.n_inputs() or len(qf.returns.bitvec) != pr.ret.width() or n > 10:
        return {"status": "unjudged", "rows": 0, "nontrivial": False, "outcome": "unjudged-shape"}
    qc = qf.circuit()
    bad = []
    # ---- structural part
    try:
        iq = list(qf.input_qubits)
    except Exception as e:
        iq = None
        bad.append({"why": "input_qubits raised", "exc": H.exc_name(e)})
    try:
        oq = list(qf.output_qubits)
    except Exception as e:
        oq = None
        bad.append({"why": "output_qubits raised", "exc": "%s: %s" % (H.exc_name(e), str(e)[:60])})
    if iq is not None:
        # an argument that the body assigns to again shares its name with the later value: the name then maps to the new
        # qubit, so only the other bits are compared by name (the functional part below decides for all of them)
        reassigned = {str(sy) for sy, _ in qf.expressions} & set(names)
        want_iq = [qc.qubit_map.get(b) if b not in reassigned else q for b, q in zip(names, iq)] if len(iq) == len(names) else None
        if len(set(iq)) != len(iq):
            bad.append({"why": "input_qubits lists a qubit twice", "got": iq})
        if iq != want_iq:
            bad.append({"why": "input_qubits are not the qubits of the argument bits in order", "got": iq, "want": want_iq})
    env, M = sim.boolev_list(qf.expressions, names, lenient=True)
    retbits = qf.returns.bitvec
    if any(b not in env for b in retbits):
        if bad:  # the qubit lists themselves could not be produced: that is this property, whatever the expressions define
            return {"status": "violation", "rows": 0, "nontrivial": True, "outcome": "structural", "detail": {"bad": bad[:3]},
                    "digest": H.h12([b["why"] for b in bad])}
        return {"status": "unjudged", "rows": 0, "nontrivial": False, "outcome": "unjudged-open"}
    rows = 1 << n
    if oq is not None:
        if len(oq) != pr.ret.width():
            bad.append({"why": "len(output_qubits) differs from the result width", "got": len(oq), "want": pr.ret.width()})
        if any((not isinstance(q, int)) or q < 0 or q >= qc.num_qubits for q in oq + (iq or [])):
            bad.append({"why": "qubit index out of range", "output_qubits": oq, "num_qubits": qc.num_qubits})
        for i in range(len(oq)):
            for j in range(i + 1, len(oq)):
                if oq[i] == oq[j] and i < len(retbits) and j < len(retbits) and env[retbits[i]] != env[retbits[j]]:
                    bad.append({"why": "two return bits with different values share an output qubit", "bits": [retbits[i], retbits[j]]})
    nrows = 0
    if not bad:
        # f(v) itself: the value CPython computes for the source, wherever it is determined (rows whose intermediates overflow are not judged)
        try:
            want, care, und = pr.table(None)
            for i, b in enumerate(retbits):
                d = (env[b] ^ want[i]) & care[i]
                if d:
                    bad.append({"why": "the value the circuit is built for is not f(v): return bit differs from the Python value", "bit": b,
                                "wrong_rows": sim.popcount(d), "first_rows": sim.rows_of(d, rows)})
                    break
        except pyref.Unsupported:
            pass
    if not bad:
        cols, _, _ = H.circuit_columns(qf)
        for r in range(rows):
            bits = [(r >> i) & 1 for i in range(n)]
            # argument values as a user would write them
            p = 0
            refargs = []
            for t in pr.argtypes:
                w = t.width()
                refargs.append(pyref.decode_value(t, bits[p:p + w]))
                p += w
            try:
                libargs = [values.to_lib(t, v) for t, v in zip(pr.argtypes, refargs)]
            except pyref.Unsupported:
                return {"status": "unjudged", "rows": 0, "nontrivial": False, "outcome": "unjudged-type"}
            want_s = "".join(str(b) for b in reversed(bits))
            try:
                s = qf.encode_input(*libargs)
            except Exception as e:
                bad.append({"why": "encode_input raised", "args": values.show(refargs), "exc": "%s: %s" % (H.exc_name(e), str(e)[:60])})
                break
            if s != want_s:
                bad.append({"why": "encode_input is not the argument bits (right-most = first input qubit)", "args": values.show(refargs),
                            "got": s, "want": want_s})
                break
            # run: the basis state spelled by s is row r (checked above); read the outputs in reported order
            reading = "".join(str((cols[q] >> r) & 1) for q in reversed(oq))
            expbits = [(env[b] >> r) & 1 for b in retbits]
            ref = pyref.decode_value(pr.ret, expbits)
            nrows += 1
            try:
                got = qf.decode_output(reading)
                cnt = qf.decode_counts({reading: 3})
            except Exception as e:
                bad.append({"why": "decode raised", "args": values.show(refargs), "reading": reading, "exc": "%s: %s" % (H.exc_name(e), str(e)[:60])})
                break
            if not values.same(pr.ret, got, ref):
                bad.append({"why": "decode_output(circuit reading) is not f(v)", "args": values.show(refargs), "reading": reading,
                            "got": values.show(got), "want": values.show(ref)})
                break
            if len(cnt) != 1 or list(cnt.values()) != [3] or not values.same(pr.ret, list(cnt.keys())[0], ref):
                bad.append({"why": "decode_counts disagrees with decode_output", "args": values.show(refargs), "got": repr(cnt)[:80]})
                break
    nontrivial = len(pr.argtypes) >= 2 or any(t.kind == "tuple" for t in pr.argtypes + [pr.ret])
    out = {"status": "ok", "rows": nrows, "nontrivial": nontrivial,
           "outcome": H.h12((case["src"].split("\n")[0], [env[b] for b in retbits]))}
    if bad:
        out["status"] = "violation"
        out["detail"] = {"bad": bad[:4], "n_inputs": n, "qubit_map": dict(list(qc.qubit_map.items())[:24]),
                         "returns": list(retbits)}
        out["digest"] = H.h12([(b["why"], b.get("args"), b.get("got")) for b in bad])
    return out
