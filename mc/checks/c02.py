"""C02 — the circuit computes the function's boolean expressions."""
from .. import harness as H
from .. import sim
from . import compiled_common as CC

ID = "C02"
CONFIGS = [("default", True), ("default", False), ("fast", True), ("fast", False)]

META = {
    "rule": "cases = every program of the bounded typed grammar (families B, I1, S, T, M of mc/progs.py) x "
            "{default,fast} optimizer x {uncompute on,off}, compiled by the real qlassf (internal compiler); "
            "each case is simulated bit-parallel on ALL 2^n basis inputs. A case is non-trivial when some "
            "return bit is non-constant and depends on >= 2 input bits; distinct = distinct tuples of "
            "return-bit truth tables (digest) among non-trivial cases.",
    "bound": {"quick": "B: all trees <=2 ops (all labelings, 2-3 vars), <=3 ops (first-occurrence labelings, <=5 vars), "
                       "shape templates; I1/S/T quick lists; M: 1 840 programs (two temporaries; overwritten arguments; overwritten copies)",
              "thorough": "B additionally 4 operator nodes over <=4 vars; I1/S/T thorough lists"},
    "assumptions": [
        "bitsim (60-line bit-parallel X/CX/MCX simulator) is the meaning of a classical reversible circuit; "
        "cross-checked against the numpy state-vector simulator and the library's CNotSim",
        "boolev (bit-parallel sympy evaluator) is the meaning of an expression list; cross-checked against sympy.subs",
        "a program rejected with an exception is counted, not judged",
    ],
    "explanation": "states = compiled (program, configuration) cases; transitions = basis inputs simulated (2^n per case) "
                   "on the real circuit; every execution runs the real compiler, there is no separate model.",
}


def shards(tier):
    return CC.shards(tier, CONFIGS)


cases = CC.cases


def run_case(case):
    qf, rej = CC.compile_case(case)
    if rej:
        return rej
    env, M, names = H.expr_columns(qf)
    cols, M2, n = H.circuit_columns(qf)
    qc = qf.circuit()
    rows = 1 << n
    bad = []
    retcols = []
    for bit in qf.returns.bitvec:
        want = env.get(bit)
        if want is None:
            bad.append({"bit": bit, "why": "return bit has no defining expression"})
            continue
        retcols.append(want)
        if bit not in qc.qubit_map:
            bad.append({"bit": bit, "why": "return bit not mapped to a qubit"})
            continue
        q = qc.qubit_map[bit]
        if not (0 <= q < qc.num_qubits):
            bad.append({"bit": bit, "why": "qubit index out of range", "qubit": q})
            continue
        diff = cols[q] ^ want
        if diff:
            bad.append({"bit": bit, "qubit": q, "why": "circuit value differs from expression",
                        "wrong_rows": sim.popcount(diff), "first_rows": sim.rows_of(diff, rows)})
    counters = {}
    # the library's own classical simulator must tell the same story (n <= 5: 32 runs)
    if not bad and n <= 5:
        from qlasskit.qcircuit import CNotSim
        for r in range(rows):
            init = [bool((r >> i) & 1) for i in range(n)]
            res = CNotSim().simulate(qc, initialize=init)
            for q in range(qc.num_qubits):
                if bool((cols[q] >> r) & 1) != bool(res[q]):
                    bad.append({"why": "CNotSim disagrees with bitsim", "row": r, "qubit": q})
                    break
            if bad:
                break
        counters["cnotsim_rows"] = rows
    nontrivial = any(c not in (0, M) and CC.support_size(c, n, M) >= 2 for c in retcols)
    out = {"status": "ok", "rows": rows, "nontrivial": nontrivial, "outcome": H.h12((n, retcols)),
           "counters": counters}
    if bad:
        out["status"] = "violation"
        out["detail"] = {"bad": bad[:4], "n_inputs": n, "num_qubits": qc.num_qubits,
                         "expressions": [str(e) for e in qf.expressions][:12],
                         "gates": [(g.__class__.__name__, w) for g, w, p in qc.gates][:60]}
        out["digest"] = H.h12([(b.get("bit"), b.get("why"), b.get("wrong_rows"), b.get("first_rows")) for b in bad])
    return out
