"""C09 — type codecs are exact and mutually inverse (exhaustive over all bit patterns)."""
import itertools
from fractions import Fraction
from typing import Tuple

from .. import harness as H
from .. import pyref

ID = "C09"

META = {
    "rule": "cases = (type, block of bit patterns): every shipped Qint/Qfixed/Qchar type with ALL 2^w patterns (complete), nested "
            "Tuple/Qlist/Qmatrix types built from <=4-bit element types with all patterns, and const_to_qtype on every integer / char, and on int and float literals of equal value interleaved in one process. "
            "Oracles: from_bool/to_bool and from_bin/to_bin round trips, const(value) == to_bool(value), decoded value == independent "
            "reference decoder, to_amplitudes one-hot at sum(bit_k 2^k), interpret_as_qtype inverts the concatenated element encodings. "
            "Non-trivial = pattern with at least two different bits; distinct = distinct (type, pattern).",
    "bound": {"quick": "scalar types up to 12 bits complete; nested types up to 10 bits; const_to_qtype for all ints < 2^12",
              "thorough": "all shipped scalar types complete (Qint16: 65536 patterns); const_to_qtype for all ints < 2^16"},
    "assumptions": ["the reference decoder (pyref.decode_value: little-endian integer part, MSB-first binary fraction) is the documented encoding",
                    "measured strings follow the library's documented right-most-is-bit-0 convention"],
    "explanation": "states = (type, bit pattern) pairs; transitions = codec operations checked on them (7 per scalar pattern).",
}

BLOCK = 1024


def scalar_types(tier):
    from qlasskit import types as T
    out = []
    for t in T.QINT_TYPES:
        if t.BIT_SIZE <= (12 if tier == "quick" else 16):
            out.append(("Qint%d" % t.BIT_SIZE, "int", (t.BIT_SIZE,)))
    for t in T.QFIXED_TYPES:
        out.append((t.__name__, "fixed", (t.BIT_SIZE_INTEGER, t.BIT_SIZE_FRACTIONAL)))
    out.append(("Qchar", "char", ()))
    return out


NESTED = [
    "Tuple[bool, bool]", "Tuple[bool, Qint2]", "Tuple[Qint2, bool]", "Tuple[Qint2, Qint3]", "Tuple[Qint2, Tuple[bool, Qint3]]",
    "Tuple[Tuple[bool, bool], Tuple[Qint2, bool]]", "Qlist[bool, 3]", "Qlist[Qint2, 3]", "Qlist[Qint3, 2]", "Qmatrix[bool, 2, 2]",
    "Qmatrix[bool, 2, 3]", "Qmatrix[Qint2, 2, 2]", "Tuple[Qfixed1_2, bool]", "Tuple[bool, Qfixed2_2, Qint2]", "Qlist[Qfixed1_2, 2]",
    "Tuple[Qint4, Qint4]", "Tuple[Qint2, Qint2, Qint2, Qint2]", "Tuple[Qlist[bool, 2], Qint4]", "Tuple[Qint3, Qlist[Qint2, 2], bool]",
]


def _more_nested():
    """All 3-tuples over {bool, Qint2, Qint3}, each also nested as the first / last member of an outer tuple."""
    el = ["bool", "Qint2", "Qint3"]
    out = []
    for x in el:
        for y in el:
            for z in el:
                t = "Tuple[%s, %s, %s]" % (x, y, z)
                out.append(t)
                out.append("Tuple[%s, Qint2]" % t)
                if x == z and y != x:
                    out.append("Tuple[%s, Qint4]" % t)
                    out.append("Tuple[bool, %s, %s]" % (t, t))
    return out


NESTED = NESTED + [t for t in _more_nested() if t not in NESTED]


def lib_type(name):
    from qlasskit import types as T
    ns = {"Tuple": Tuple, "bool": bool, "Qlist": T.Qlist, "Qmatrix": T.Qmatrix}
    for t in T.QINT_TYPES + T.QFIXED_TYPES + [T.Qchar]:
        ns[t.__name__] = t
    return eval(name, ns)


def ref_type(name):
    ns = pyref.namespace()
    ns["bool"] = bool
    for w in (2, 3, 4, 5, 6, 7, 8, 12, 16):
        ns["Qint%d" % w] = pyref.T("int", w)
    from qlasskit import types as T
    for t in T.QFIXED_TYPES:
        ns[t.__name__] = pyref.T("fixed", t.BIT_SIZE_INTEGER, t.BIT_SIZE_FRACTIONAL)
    # Qmatrix[T, n, m] at *runtime* (qlasskit.types.qmatrix) is m rows of n; mirror the runtime class here
    ns["Qmatrix"] = pyref._Sub(lambda p: pyref.T("tuple", *([pyref.T("tuple", *([pyref._norm(p[0])] * p[1]))] * p[2])))
    return pyref._norm(eval(name, ns))


def shards(tier):
    out = []
    for name, kind, par in scalar_types(tier):
        w = sum(par) if kind != "char" else 8
        for lo in range(0, 1 << w, BLOCK):
            out.append({"k": "scalar", "type": name, "kind": kind, "par": list(par), "w": w, "lo": lo, "hi": min(1 << w, lo + BLOCK)})
    for name in NESTED:
        out.append({"k": "nested", "type": name})
    top = 1 << (12 if tier == "quick" else 16)
    for lo in range(0, top, 4096):
        out.append({"k": "constint", "lo": lo, "hi": min(top, lo + 4096)})
    out.append({"k": "constchar"})
    out.append({"k": "constmix"})
    return out


def cases(shard):
    if shard["k"] == "scalar":
        yield {"k": "scalar", "type": shard["type"], "kind": shard["kind"], "par": shard["par"], "w": shard["w"], "lo": shard["lo"],
               "hi": shard["hi"], "key": "scalar %s patterns %d..%d" % (shard["type"], shard["lo"], shard["hi"] - 1)}
    elif shard["k"] == "nested":
        yield {"k": "nested", "type": shard["type"], "key": "nested " + shard["type"]}
    elif shard["k"] == "constint":
        yield {"k": "constint", "lo": shard["lo"], "hi": shard["hi"], "key": "const_to_qtype ints %d..%d" % (shard["lo"], shard["hi"] - 1)}
    elif shard["k"] == "constmix":
        yield {"k": "constmix", "key": "const_to_qtype ints and floats of equal value, interleaved"}
    else:
        yield {"k": "constchar", "key": "const_to_qtype chars"}


def _val_eq(kind, libv, refv):
    if kind == "int":
        return int(libv) == refv.v
    if kind == "fixed":
        return Fraction(float(libv)) == refv.v
    if kind == "char":
        return str(libv) == refv
    return False


def _nested_eq(t, libv, refv):
    if t.kind == "tuple":
        if not isinstance(libv, tuple) or len(libv) != len(refv):
            return False
        return all(_nested_eq(x, a, b) for x, a, b in zip(t.a, libv, refv))
    if t.kind == "bool":
        return isinstance(libv, bool) and libv == refv
    return _val_eq(t.kind, libv, refv)


def run_case(case):
    bad = []
    rows = 0
    states = 0
    nontriv = 0
    k = case["k"]
    if k == "scalar":
        T = lib_type(case["type"])
        kind = case["kind"]
        w = case["w"]
        rt = pyref.T(kind, *case["par"])
        for p in range(case["lo"], case["hi"]):
            bits = [bool((p >> i) & 1) for i in range(w)]
            states += 1
            if 0 < p < (1 << w) - 1:
                nontriv += 1
            ref = pyref.decode_value(rt, [int(b) for b in bits])
            try:
                v = T.from_bool(list(bits))
                if not _val_eq(kind, v, ref):
                    bad.append({"op": "from_bool", "pattern": p, "got": repr(v), "want": repr(ref)})
                    continue
                back = v.to_bool()
                if list(back) != bits:
                    bad.append({"op": "to_bool(from_bool(bits))", "pattern": p, "got": "".join("1" if b else "0" for b in back)})
                bs = "".join("1" if b else "0" for b in bits)
                if v.to_bin() != bs:
                    bad.append({"op": "to_bin", "pattern": p, "got": v.to_bin(), "want": bs})
                v2 = T.from_bin(bs)
                if v2.to_bin() != bs or not _val_eq(kind, v2, ref):
                    bad.append({"op": "from_bin/to_bin", "pattern": p, "got": v2.to_bin(), "want": bs})
                if kind == "int":
                    cv = int(v)
                elif kind == "fixed":
                    cv = float(v)
                else:
                    cv = str(v)
                ct, cb = T.const(cv)
                cb = [bool(x) for x in cb]
                if cb != bits:
                    bad.append({"op": "const(value) vs to_bool(value)", "pattern": p, "value": repr(cv),
                                "got": "".join("1" if b else "0" for b in cb)})
                # a value constructed directly from the high-level value encodes the same way
                direct = T(cv).to_bool()
                if list(direct) != bits:
                    bad.append({"op": "T(value).to_bool()", "pattern": p, "value": repr(cv), "got": "".join("1" if b else "0" for b in direct)})
                am = v.to_amplitudes()
                hot = [i for i, x in enumerate(am) if x != 0]
                if len(am) != (1 << w) or hot != [p] or am[p] != 1:
                    bad.append({"op": "to_amplitudes", "pattern": p, "hot": hot[:4], "len": len(am)})
                rows += 7
            except Exception as e:
                bad.append({"op": "raised", "pattern": p, "exc": "%s: %s" % (H.exc_name(e), str(e)[:80])})
            if len(bad) > 20:
                break
    elif k == "nested":
        from qlasskit import interpret_as_qtype
        T = lib_type(case["type"])
        rt = ref_type(case["type"])
        w = rt.width()
        for p in range(1 << w):
            bits = [(p >> i) & 1 for i in range(w)]
            states += 1
            if 0 < p < (1 << w) - 1:
                nontriv += 1
            s = "".join(str(b) for b in reversed(bits))  # right-most character is bit 0
            ref = pyref.decode_value(rt, bits)
            try:
                for form in (s, [bool(int(ch)) for ch in s]):
                    got = interpret_as_qtype(form, T, w)
                    rows += 1
                    if not _nested_eq(rt, got, ref):
                        bad.append({"op": "interpret_as_qtype", "pattern": s, "got": repr(got), "want": repr(ref)})
                        break
            except Exception as e:
                bad.append({"op": "raised", "pattern": s, "exc": "%s: %s" % (H.exc_name(e), str(e)[:80])})
            if len(bad) > 20:
                break
    elif k == "constint":
        from qlasskit import const_to_qtype
        for v in range(case["lo"], case["hi"]):
            states += 1
            nontriv += 1
            try:
                t, b = const_to_qtype(v)
                rows += 1
                val = sum((1 << i) for i, x in enumerate(b) if x)
                if val != v or len(b) != t.BIT_SIZE or int(t.from_bool([bool(x) for x in b])) != v:
                    bad.append({"op": "const_to_qtype", "value": v, "type": t.__name__, "decoded": val})
            except Exception as e:
                bad.append({"op": "const_to_qtype raised", "value": v, "exc": H.exc_name(e)})
            if len(bad) > 20:
                break
    elif k == "constmix":
        # the constant of an int literal and of the float literal of equal value (3 and 3.0 are equal and hash alike in Python)
        # in both orders of first use, in one process: ints are Qint constants, floats Qfixed constants of that value
        from qlasskit import const_to_qtype
        from qlasskit.types.qfixed import QfixedImp
        from qlasskit.types.qint import QintImp
        seq = []
        for v in range(16):
            seq += [v, float(v)] if v % 2 == 0 else [float(v), v]
        seq += [x + 0.5 for x in range(8)] + [0.25, 1.75, 3.125]
        for _round in (0, 1):
            for v in seq:
                states += 1
                nontriv += 1
                try:
                    t, b = const_to_qtype(v)
                    rows += 1
                    if isinstance(v, float):
                        okv = issubclass(t, QfixedImp) and len(b) == t.BIT_SIZE and float(t.from_bool([bool(x) for x in b])) == v
                    else:
                        okv = issubclass(t, QintImp) and len(b) == t.BIT_SIZE and sum((1 << i) for i, x in enumerate(b) if x) == v
                    if not okv:
                        bad.append({"op": "const_to_qtype", "value": repr(v), "type": t.__name__, "bits": [bool(x) for x in b]})
                except Exception as e:
                    bad.append({"op": "const_to_qtype raised", "value": repr(v), "exc": H.exc_name(e)})
    else:
        from qlasskit import Qchar, const_to_qtype
        for v in range(256):
            states += 1
            nontriv += 1
            t, b = const_to_qtype(chr(v))
            rows += 1
            val = sum((1 << i) for i, x in enumerate(b) if x)
            if val != v or t is not Qchar or len(b) != 8:
                bad.append({"op": "const_to_qtype", "value": v, "decoded": val})
    out = {"status": "ok", "rows": rows, "states": states, "nontrivial": nontriv > 0, "outcome": H.h12(case["key"]),
           "counters": {"patterns": states, "nontrivial_patterns": nontriv}}
    if bad:
        out["status"] = "violation"
        out["detail"] = {"bad": bad[:6], "type": case.get("type")}
        out["digest"] = H.h12([(b["op"], b.get("pattern"), b.get("value"), b.get("got")) for b in bad[:20]])
    return out
