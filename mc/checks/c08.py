"""C08 — binding parameters is specialisation."""
import ast
import itertools

from .. import harness as H
from .. import progs, pyref, sim
from . import c01

ID = "C08"

META = {
    "rule": "states = (parameterised program, parameter values, keyword order) binds and bind histories: templates with 1-3 Parameter[T] for "
            "T in bool, Qint[2], Qint[4], Qchar, Qfixed[1,2], Tuple[bool,bool], Qlist[Qint[2],2], Qlist[bool,3] used in arithmetic, conditions, loop "
            "bounds, list indices, with parameters first / last / interleaved; the FULL product of parameter values; ALL keyword orders; every bind "
            "sequence of length <= 3 over 3 value tuples on one unbound object. Oracle: the bound function's expressions on ALL remaining inputs vs "
            "CPython running the unbound source with the parameters set (pyref); every bind of a history equals the same bind on a fresh object; "
            "ast.dump(u.fun_ast) never changes; unknown / missing / extra keywords raise. Non-trivial = the result depends on a parameter and on "
            ">= 1 input bit; distinct = distinct (program, values) truth tables.",
    "bound": {"quick": "~60 templates, parameter domains <= 4 values each (all products), histories over 3 values depth 3",
              "thorough": "wider value domains (Qint[4]: 0..15), both optimizer profiles"},
    "assumptions": ["a bind that raises is a rejection only if it also raises in a fresh interpreter (python -c); otherwise it is reported",
                    "pyref is the meaning of the unbound function called with the parameters set; a bound value is a literal constant, typed like any literal"],
    "explanation": "states = binds executed on the real UnboundQlassf; transitions = remaining-input rows compared + history steps.",
}

QI2 = [0, 1, 2, 3]
BO = [False, True]


def templates(tier):
    """(source, {param: domain})"""
    T = []
    q4 = [0, 1, 5, 15] if tier == "quick" else list(range(16))
    for op in ("+", "-", "*", "&", "|", "^"):
        T.append(("def tfun(a: Qint[2], p: Parameter[Qint[2]]) -> Qint[4]:\n    return a %s p\n" % op, {"p": QI2}))
        T.append(("def tfun(p: Parameter[Qint[2]], a: Qint[2]) -> Qint[2]:\n    return p %s a\n" % op, {"p": QI2}))
    for op in ("+", "-", "^"):
        T.append(("def tfun(a: Qint[4], p: Parameter[Qint[4]]) -> Qint[4]:\n    return a %s p\n" % op, {"p": q4}))
        T.append(("def tfun(a: Qint[2], p: Parameter[Qint[4]]) -> Qint[4]:\n    c = a %s p\n    return c + 1\n" % op, {"p": q4}))
    for c in ("==", "!=", "<", "<=", ">", ">="):
        T.append(("def tfun(a: Qint[2], p: Parameter[Qint[2]]) -> bool:\n    return a %s p\n" % c, {"p": QI2}))
        T.append(("def tfun(p: Parameter[Qint[4]], a: Qint[2]) -> bool:\n    return p %s a\n" % c, {"p": q4}))
    for e in ("a and p", "a ^ p", "(not a) or p", "(b if p else a)", "(p if a else not p)", "a == p"):
        T.append(("def tfun(a: bool, b: bool, p: Parameter[bool]) -> bool:\n    return %s\n" % e, {"p": BO}))
    T.append(("def tfun(a: Qint[2], p: Parameter[bool]) -> Qint[2]:\n    c = a\n    if p:\n        c = a + 1\n    else:\n        c = a - 1\n    return c\n", {"p": BO}))
    T.append(("def tfun(a: Qint[2], p: Parameter[bool]) -> Qint[2]:\n    return a + 1 if p else a\n", {"p": BO}))
    for body in ("a += 1", "a = a + i", "a ^= p", "a = a + p"):
        T.append(("def tfun(a: Qint[2], p: Parameter[Qint[2]]) -> Qint[2]:\n    for i in range(p):\n        %s\n    return a\n" % body, {"p": QI2}))
    T.append(("def tfun(a: bool, p: Parameter[Qint[2]]) -> bool:\n    for i in range(p):\n        a = not a\n    return a\n", {"p": QI2}))
    T.append(("def tfun(a: Qint[2], p: Parameter[Qint[2]]) -> Qint[4]:\n    c = [1, 3, 2, 0]\n    return c[p] + a\n", {"p": QI2}))
    T.append(("def tfun(a: Qint[2], p: Parameter[Qint[2]]) -> Qint[2]:\n    c = [1, 3, 2, 0]\n    return c[a] ^ p\n", {"p": QI2}))
    T.append(("def tfun(a: Qint[2], b: Qint[2], p: Parameter[Qint[2]]) -> Qint[2]:\n    return a if p > 1 else b\n", {"p": QI2}))
    T.append(("def tfun(a: Qint[2], b: Qint[2], p: Parameter[Qint[2]]) -> Qint[2]:\n    c = a\n    if p == 2:\n        c = b\n    return c\n", {"p": QI2}))
    T.append(("def tfun(a: Qlist[bool, 4], p: Parameter[Qint[2]]) -> bool:\n    return a[p]\n", {"p": QI2}))
    T.append(("def tfun(a: Qlist[Qint[2], 2], p: Parameter[Qint[2]]) -> Qint[2]:\n    return a[p]\n", {"p": [0, 1]}))
    # list / tuple parameters
    L2 = [[0, 0], [1, 2], [3, 1], [2, 3]]
    T.append(("def tfun(a: Qint[2], p: Parameter[Qlist[Qint[2], 2]]) -> Qint[4]:\n    return a + p[0] - p[1]\n", {"p": L2}))
    T.append(("def tfun(a: Qint[2], p: Parameter[Qlist[Qint[2], 2]]) -> Qint[2]:\n    for x in p:\n        a += x\n    return a\n", {"p": L2}))
    T.append(("def tfun(a: Qint[2], p: Parameter[Qlist[Qint[2], 2]]) -> Qint[4]:\n    return sum(p) + a\n", {"p": L2}))
    T.append(("def tfun(a: Qint[2], p: Parameter[Qlist[Qint[2], 2]]) -> bool:\n    return a == p[1]\n", {"p": L2}))
    T.append(("def tfun(a: Qint[2], p: Parameter[Qlist[Qint[2], 2]]) -> Qint[2]:\n    return max(p) ^ a\n", {"p": L2}))
    T.append(("def tfun(a: Qint[2], p: Parameter[Qlist[Qint[2], 2]]) -> Qint[2]:\n    return p[a[0]] if a[1] else a\n"[:0] + 
              "def tfun(a: bool, b: Qint[2], p: Parameter[Qlist[Qint[2], 2]]) -> Qint[2]:\n    i = 1 if a else 0\n    return p[i] + b\n", {"p": L2}))
    TB = [(False, False), (False, True), (True, False), (True, True)]
    T.append(("def tfun(a: bool, p: Parameter[Tuple[bool, bool]]) -> bool:\n    return (a and p[0]) or p[1]\n", {"p": TB}))
    T.append(("def tfun(a: bool, b: bool, p: Parameter[Tuple[bool, bool]]) -> bool:\n    return (a ^ p[0]) and (b ^ p[1])\n", {"p": TB}))
    LB = [[False, False, False], [True, False, True], [True, True, True], [False, True, False]]
    T.append(("def tfun(a: bool, p: Parameter[Qlist[bool, 3]]) -> bool:\n    c = a\n    for x in p:\n        c = c ^ x\n    return c\n", {"p": LB}))
    T.append(("def tfun(a: Qint[2], p: Parameter[Qlist[bool, 3]]) -> bool:\n    return p[a] if a < 3 else p[0]\n"[:0] +
              "def tfun(a: bool, b: bool, p: Parameter[Qlist[bool, 3]]) -> bool:\n    return all(p) or (a and p[0]) or (b and p[2])\n", {"p": LB}))
    # matrix parameters (non-square, so that row and column counts cannot be confused), constant and run-time indices
    M23 = [[[1, 2, 3], [0, 3, 1]], [[0, 0, 1], [2, 2, 2]]]
    M32 = [[[1, 2], [3, 0], [2, 2]], [[0, 1], [1, 0], [3, 3]]]
    MB23 = [[[True, False, True], [False, False, True]], [[False, True, True], [True, True, False]]]
    for dom, sh in ((M23, "2, 3"), (M32, "3, 2")):
        T.append(("def tfun(i: Qint[2], j: Qint[2], p: Parameter[Qmatrix[Qint[2], %s]]) -> Qint[2]:\n    return p[i][j]\n" % sh, {"p": dom}))
        T.append(("def tfun(a: Qint[2], p: Parameter[Qmatrix[Qint[2], %s]]) -> Qint[4]:\n    return p[0][1] + p[1][0] + a\n" % sh, {"p": dom}))
        T.append(("def tfun(a: Qint[2], p: Parameter[Qmatrix[Qint[2], %s]]) -> Qint[4]:\n    c = a\n    for r in p:\n        for x in r:\n            c = c ^ x\n    return c\n" % sh, {"p": dom}))
        T.append(("def tfun(j: Qint[2], p: Parameter[Qmatrix[Qint[2], %s]]) -> Qint[2]:\n    return p[1][j]\n" % sh, {"p": dom}))
    T.append(("def tfun(i: bool, j: Qint[2], p: Parameter[Qmatrix[bool, 2, 3]]) -> bool:\n    x = 1 if i else 0\n    return p[x][j]\n", {"p": MB23}))
    T.append(("def tfun(a: bool, p: Parameter[Qmatrix[bool, 2, 3]]) -> bool:\n    return (len(p) == 2) and (len(p[0]) == 3) and (a or p[1][2])\n", {"p": MB23}))
    for cmp in ("==", "!=", "<", "<=", ">", ">="):
        T.append(("def tfun(a: Qint[2], p: Parameter[Qlist[Qint[2], 2]]) -> Qint[4]:\n    c = a\n    for w in p:\n        if w %s 2:\n            c += 1\n    return c\n" % cmp, {"p": L2}))
        T.append(("def tfun(a: Qint[2], p: Parameter[Qint[2]]) -> Qint[2]:\n    return a + 1 if p %s 1 else a\n" % cmp, {"p": QI2}))
    # chars and fixed
    T.append(("def tfun(a: Qchar, p: Parameter[Qchar]) -> bool:\n    return a == p\n", {"p": ["a", "z", "0"]}))
    T.append(("def tfun(a: Qint[2], p: Parameter[Qchar]) -> Qchar:\n    return p if a == 1 else 'x'\n", {"p": ["a", "b"]}))
    T.append(("def tfun(a: Qfixed[1, 2], p: Parameter[Qfixed[1, 2]]) -> bool:\n    return a > p\n", {"p": [0.5, 0.25, 1.0, 1.5]}))
    T.append(("def tfun(a: Qfixed[1, 2], p: Parameter[Qfixed[1, 2]]) -> Qfixed[1, 2]:\n    return a + p\n", {"p": [0.5, 0.25, 1.0]}))
    # a bound value is typed by its VALUE (1 is a 2-bit constant, 0.5 a Qfixed[1,2] one): parameters narrower than the argument they meet
    q4c = [0, 1, 2, 3, 4, 7, 8, 15] if tier == "quick" else list(range(16))
    for c in ("<", "<=", ">", ">=", "==", "!="):
        T.append(("def tfun(a: Qint[4], p: Parameter[Qint[4]]) -> bool:\n    return p %s a\n" % c, {"p": q4c}))
        T.append(("def tfun(a: Qint[4], p: Parameter[Qint[4]]) -> bool:\n    return a %s p\n" % c, {"p": q4c}))
        T.append(("def tfun(a: Qint[2], p: Parameter[Qint[4]]) -> bool:\n    return a %s p\n" % c, {"p": q4c}))
    F33 = [0.125, 0.5, 1.5, 2.0, 3.25, 6.5]
    for c in (">", "==", "<="):
        T.append(("def tfun(a: Qfixed[3, 3], p: Parameter[Qfixed[3, 3]]) -> bool:\n    return a %s p\n" % c, {"p": F33}))
    T.append(("def tfun(a: Qfixed[3, 3], p: Parameter[Qfixed[3, 3]]) -> Qfixed[3, 3]:\n    return a + p\n", {"p": F33}))
    T.append(("def tfun(a: Qfixed[3, 3], p: Parameter[Qfixed[3, 3]]) -> Qfixed[3, 3]:\n    return p - a\n", {"p": F33}))
    T.append(("def tfun(a: Qfixed[2, 3], p: Parameter[Qfixed[2, 3]]) -> Qfixed[2, 3]:\n    return a + p\n", {"p": [0.125, 0.5, 1.5, 2.0, 3.25]}))
    # an int and a float parameter of numerically equal values (1 and 1.0 are equal and hash alike in Python)
    T.append(("def tfun(a: Qfixed[1, 2], b: Qint[2], k: Parameter[Qint[2]], x: Parameter[Qfixed[1, 2]]) -> bool:\n    return (b == k) and (a >= x)\n",
              {"k": [0, 1], "x": [0.0, 1.0, 0.5]}))
    # several parameters, every position
    T.append(("def tfun(p: Parameter[Qint[2]], a: Qint[2], q: Parameter[bool]) -> Qint[2]:\n    return (a + p) if q else (a - p)\n", {"p": QI2, "q": BO}))
    T.append(("def tfun(a: Qint[2], p: Parameter[Qint[2]], q: Parameter[Qint[2]]) -> Qint[4]:\n    return a * p + q\n", {"p": QI2, "q": QI2}))
    T.append(("def tfun(p: Parameter[bool], q: Parameter[bool], a: bool, b: bool) -> bool:\n    return (a if p else b) ^ q\n", {"p": BO, "q": BO}))
    T.append(("def tfun(p: Parameter[Qint[2]], a: Qint[2], q: Parameter[Qint[2]], b: Qint[2], r: Parameter[bool]) -> Qint[2]:\n"
              "    c = a + p\n    d = b ^ q\n    return c if r else d\n", {"p": [0, 1, 3], "q": [0, 2], "r": BO}))
    T.append(("def tfun(a: Qint[2], p: Parameter[Qint[2]], q: Parameter[Qint[2]]) -> Qint[2]:\n    for i in range(p):\n        a += q\n    return a\n", {"p": [0, 1, 2, 3], "q": [0, 1, 3]}))
    T.append(("def tfun(a: Qint[2], p: Parameter[Qint[2]], q: Parameter[Qlist[Qint[2], 2]]) -> Qint[2]:\n    return q[p] + a\n", {"p": [0, 1], "q": L2}))
    T.append(("def tfun(p: Parameter[Qint[2]], q: Parameter[Qint[2]]) -> Qint[4]:\n    return p + q\n", {"p": QI2, "q": QI2}))
    T.append(("def tfun(p: Parameter[bool]) -> bool:\n    return not p\n", {"p": BO}))
    # parameterised callers of a previously compiled function (defs=[g]): every bind re-translates with the same definitions
    G1 = "def gfun(x: Qint[2]) -> Qint[2]:\n    return x + 1\n"
    G2 = "def hfun(x: bool, y: bool) -> bool:\n    return x and not y\n"
    T.append(("def tfun(a: Qint[2], p: Parameter[Qint[2]]) -> Qint[2]:\n    return gfun(a) + p\n", {"p": QI2}, G1))
    T.append(("def tfun(a: Qint[2], p: Parameter[Qint[2]]) -> Qint[2]:\n    c = a ^ p\n    return gfun(c)\n", {"p": QI2}, G1))
    T.append(("def tfun(a: bool, b: bool, p: Parameter[bool]) -> bool:\n    return hfun(a, p) or hfun(p, b)\n", {"p": BO}, G2))
    return T


def shards(tier):
    out = []
    profs = ["default"] if tier == "quick" else ["default", "fast"]
    for ti in range(len(templates(tier))):
        for p in profs:
            out.append({"k": "bind", "ti": ti, "tier": tier, "profile": p})
        out.append({"k": "history", "ti": ti, "tier": tier})
    out.append({"k": "keywords", "tier": tier})
    return out


def cases(shard):
    tier = shard["tier"]
    if shard["k"] == "keywords":
        yield {"k": "keywords", "tier": tier, "key": "C08 keyword errors"}
        return
    tpl = templates(tier)[shard["ti"]]
    src, dom = tpl[0], tpl[1]
    callee = tpl[2] if len(tpl) > 2 else None
    names = sorted(dom)
    if shard["k"] == "bind":
        for vals in itertools.product(*[dom[n] for n in names]):
            for order in itertools.permutations(range(len(names))):
                yield {"k": "bind", "src": src, "callee": callee, "profile": shard["profile"], "names": [names[i] for i in order],
                       "values": [vals[i] for i in order],
                       "key": "bind %s|%s|%s" % (shard["profile"], ",".join("%s=%r" % (names[i], vals[i]) for i in order), src)}
    else:
        allv = list(itertools.product(*[dom[n] for n in names]))
        vs = [allv[0], allv[len(allv) // 2], allv[-1]]
        for L in (2, 3):
            for seq in itertools.product(range(3), repeat=L):
                yield {"k": "history", "src": src, "callee": callee, "names": names, "vals": [list(v) for v in vs], "seq": list(seq),
                       "key": "history %s|%s|%s" % (list(seq), [list(v) for v in vs], src)}


def tup(v):
    return tuple(tup(x) for x in v) if isinstance(v, (list, tuple)) else v


def ref_param(v):
    """A bound value is injected as a literal: ints become typed constants like any literal."""
    if isinstance(v, (list, tuple)):
        return tuple(ref_param(x) for x in v)
    if isinstance(v, bool) or isinstance(v, (str, float)):
        return v
    return pyref._c(v)


def fresh_bind_outcome(src, callee, kw):
    """'ok' / 'raises' / 'unknown': the same translate + bind in a fresh interpreter (python -c, same hash seed)."""
    import os
    import subprocess
    import sys
    code = ("import sys\nfrom qlasskit import qlassf\nsrc=%r\ncallee=%r\nkw=%r\n"
            "defs=[qlassf(callee, to_compile=False)] if callee else []\n"
            "u=qlassf(src, to_compile=False, defs=defs)\n"
            "try:\n    u.bind(**kw)\n    print('OUTCOME ok')\nexcept Exception as e:\n    print('OUTCOME raises')\n") % (src, callee, kw)
    env = dict(os.environ)
    if os.environ.get("QLASSKIT_SRC"):
        env["PYTHONPATH"] = os.environ["QLASSKIT_SRC"] + os.pathsep + env.get("PYTHONPATH", "")
    try:
        out = subprocess.run([sys.executable, "-c", code], capture_output=True, text=True, timeout=120, env=env).stdout
    except Exception:
        return "unknown"
    if "OUTCOME ok" in out:
        return "ok"
    return "raises" if "OUTCOME raises" in out else "unknown"


def fingerprint(qf):
    return (qf.name, [(a.name, str(a.ttype), list(a.bitvec)) for a in qf.args], list(qf.returns.bitvec),
            [(str(s), str(e)) for s, e in qf.expressions])


def run_case(case):
    from qlasskit import qlassf
    k = case["k"]
    if k == "keywords":
        bad = []
        rows = 0
        src = "def tfun(a: Qint[2], p: Parameter[Qint[2]], q: Parameter[bool]) -> Qint[2]:\n    return a + p if q else a\n"
        u = qlassf(src, to_compile=False)
        for kw in ({}, {"p": 1}, {"q": True}, {"p": 1, "q": True, "r": 0}, {"p": 1, "z": True}, {"a": 1, "p": 1}, {"a": 1, "p": 1, "q": True}):
            rows += 1
            try:
                u.bind(**kw)
                bad.append({"why": "bind(%r) did not raise" % (kw,)})
            except Exception:
                pass
        try:
            ok = u.bind(p=1, q=True)
            rows += 1
            if [a.name for a in ok.args] != ["a"]:
                bad.append({"why": "bound function still lists parameters as arguments", "args": [a.name for a in ok.args]})
        except Exception as e:
            bad.append({"why": "a correct bind raised %s" % H.exc_name(e)})
        out = {"status": "ok", "rows": rows, "nontrivial": True, "outcome": "kw"}
        if bad:
            out.update({"status": "violation", "detail": {"bad": bad}, "digest": H.h12([b["why"] for b in bad])})
        return out
    src = case["src"]
    callee = case.get("callee")

    def mk(**kw):
        if callee:
            return qlassf(src, to_compile=False, defs=[H.translate(callee, "default")], **kw)
        return qlassf(src, to_compile=False, **kw)
    try:
        pr = pyref.Program((callee or "") + src, fname="tfun")
    except pyref.Unsupported as e:
        return {"status": "unjudged", "rows": 0, "nontrivial": False, "outcome": "unjudged"}
    if k == "bind":
        prof = H.PROFILES[case["profile"]]
        try:
            u = mk(bool_optimizer=prof)
        except Exception as e:
            return {"status": "rejected", "rows": 0, "nontrivial": False, "outcome": "rej:" + H.exc_name(e)}
        if not hasattr(u, "bind") or not hasattr(u, "fun_ast"):
            return {"status": "violation", "rows": 0, "nontrivial": False, "outcome": "notunbound",
                    "detail": {"why": "a function with Parameter arguments did not yield an unbound object"}, "digest": "notunbound"}
        before = ast.dump(u.fun_ast)
        kw = dict(zip(case["names"], [tup(v) if False else v for v in case["values"]]))
        try:
            qf = u.bind(**kw)
        except Exception as e:
            # a rejection must not depend on what this process translated before: the same bind is repeated in a fresh interpreter
            fresh = fresh_bind_outcome(src, callee, kw)
            if fresh == "ok":
                return {"status": "violation", "rows": 0, "nontrivial": True, "outcome": "bind-raises-only-here",
                        "detail": {"bad": [{"why": "bind raised %s: %s here, but succeeds in a fresh interpreter" % (H.exc_name(e), str(e)[:80])}],
                                   "bind": {n: repr(v) for n, v in kw.items()}},
                        "digest": H.h12(("bind-raises-only-here", H.exc_name(e)))}
            return {"status": "rejected", "rows": 0, "nontrivial": False, "outcome": "bindrej:" + H.exc_name(e),
                    "counters": {"bind_rejected": 1, "bind_rejections_confirmed_in_fresh_interpreter": 1 if fresh == "raises" else 0}}
        bad = []
        if ast.dump(u.fun_ast) != before:
            bad.append({"why": "bind altered the unbound object's AST"})
        params = {n: ref_param(v) for n, v in kw.items()}
        try:
            b2, info = c01.judge(qf, pr, params=params, tt=False)
        except pyref.Unsupported:
            return {"status": "unjudged", "rows": 0, "nontrivial": False, "outcome": "unjudged"}
        bad += b2
        n = info["n"]
        nontrivial = False
        if info["retcols"]:
            M = sim.mask(n)
            nontrivial = n >= 1 and any(c == M and w not in (0, M) for w, c in zip(*info["retcols"]))
        out = {"status": "ok", "rows": info["rows"], "nontrivial": nontrivial, "outcome": H.h12((src, info["retcols"]))}
        if bad:
            out["status"] = "violation"
            out["detail"] = {"bad": bad[:4], "bind": {n: repr(v) for n, v in kw.items()},
                             "expressions": [str(e) for e in qf.expressions][:12]}
            out["digest"] = H.h12([(b.get("bit"), b["why"], b.get("wrong_rows")) for b in bad])
        return out
    # history
    names = case["names"]
    vals = case["vals"]
    try:
        fresh = []
        for v in vals:
            u0 = mk()
            fresh.append(fingerprint(u0.bind(**dict(zip(names, v)))))
    except Exception as e:
        return {"status": "rejected", "rows": 0, "nontrivial": False, "outcome": "rej:" + H.exc_name(e)}
    u = mk()
    before = ast.dump(u.fun_ast)
    bad = []
    for step, i in enumerate(case["seq"]):
        try:
            f = fingerprint(u.bind(**dict(zip(names, vals[i]))))
        except Exception as e:
            bad.append({"why": "bind #%d raised %s although the same bind works on a fresh object" % (step, H.exc_name(e))})
            break
        if f != fresh[i]:
            bad.append({"why": "bind #%d (values %r) differs from the same bind on a fresh object" % (step, vals[i])})
            break
        if ast.dump(u.fun_ast) != before:
            bad.append({"why": "bind #%d altered the unbound object's AST" % step})
            break
    out = {"status": "ok", "rows": len(case["seq"]), "nontrivial": len(set(case["seq"])) > 1, "outcome": H.h12(case["key"])}
    if bad:
        out.update({"status": "violation", "detail": {"bad": bad, "src": src}, "digest": H.h12([b["why"][:30] for b in bad])})
    return out
