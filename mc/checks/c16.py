"""C16 — Deutsch-Jozsa, Bernstein-Vazirani and Simon circuits meet the textbook guarantees."""
import itertools

from .. import harness as H
from .. import ideal, sim, svsim

ID = "C16"

META = {
    "rule": "states = algorithm instances: Deutsch-Jozsa on EVERY constant and EVERY balanced function of n input bits (lookup-table and DNF forms, "
            "Qint / bool / tuple argument), Bernstein-Vazirani on secret_oracle(n, s) for EVERY secret s plus hand-written dot products, Simon on "
            "EVERY period s != 0 with seven two-to-one functions each (five lookup tables with compact and spread value ranges, f(x)=min(x,x^s)+1 and a "
            "conditional-xor form, both computed). The exact output distribution of the algorithm circuit on "
            "|0..0> (sparse exact simulation) must be: DJ p(0..0)=1 for constant, 0 for balanced; BV p(s)=1; Simon support = {y: y.s=0} uniform; "
            "decode_output of every outcome with non-zero probability reports it in the argument type. The same wrapper is also run on an ideal "
            "xor-oracle to tell a wrong wrapper from a wrong compiled black box. decode_counts is exercised on counts taken over ALL qubits (each logical outcome split over two raw strings of 40 shots) with discard_lower=60: aggregation must come first. Non-trivial = non-constant function / non-zero secret; distinct = "
            "distinct (algorithm, function) instances.",
    "bound": {"quick": "DJ n=1..3 (all 2+2, 2+6, 2+70 functions); BV n=2..4 all secrets (+n=1 bool; n=4 also with a nested tuple argument Tuple[Tuple[bool, Qint[2]], bool]); Simon n=2,3 all periods",
              "thorough": "DJ n=4 all 12870 balanced functions; BV n=5; Simon n=4; Simon n=3 with EVERY two-to-one function with 3-bit values "
                          "(1 680 per period; quick: every such function on 2 bits and 32 affine value assignments per period on 3 bits)"},
    "assumptions": ["svsim.sparse_run is the meaning of the circuit", "a function whose compiled expressions do not denote the table written in its source is reported (the guarantee is about the source's function)"],
    "explanation": "states = algorithm circuits built by the real constructors on freshly compiled functions; transitions = basis outcomes compared.",
}


def NOT_DENOTED(src):
    # the function the library derived from the source is not the intended constant / balanced / dot-product / two-to-one function:
    # the guarantee is stated for the source's function (none occurs on the unmodified tree)
    return {"status": "violation", "rows": 0, "nontrivial": True, "outcome": "form-does-not-denote-f",
            "detail": {"bad": [{"why": "the compiled black box does not compute the function written in the source"}], "src": src},
            "digest": H.h12("form-does-not-denote-f")}


def balanced_tables(n):
    N = 1 << n
    for ones in itertools.combinations(range(N), N // 2):
        yield sum(1 << r for r in ones)


def shards(tier):
    out = []
    djn = [1, 2, 3] if tier == "quick" else [1, 2, 3, 4]
    for n in djn:
        tabs = [0, (1 << (1 << n)) - 1] + list(balanced_tables(n))
        step = 6 if n < 4 else 30
        for lo in range(0, len(tabs), step):
            out.append({"alg": "dj", "n": n, "lo": lo, "hi": min(len(tabs), lo + step)})
    for n in ([1, 2, 3, 4] if tier == "quick" else [1, 2, 3, 4, 5]):
        for lo in range(0, 1 << n, 4):
            out.append({"alg": "bv", "n": n, "lo": lo, "hi": min(1 << n, lo + 4)})
    for n in ([2, 3] if tier == "quick" else [2, 3, 4]):
        for s in range(1, 1 << n):
            out.append({"alg": "simon", "n": n, "s": s, "tier": tier})
            if n == 3 and tier == "thorough":
                # EVERY two-to-one function with this period and 3-bit values (1 680 injective value assignments), in blocks
                for lo in range(0, 1680, 120):
                    out.append({"alg": "simon", "n": 3, "s": s, "tier": tier, "inj_lo": lo, "inj_hi": lo + 120})
    return out


def argtype(n, kind):
    if kind == "int":
        return "Qint[%d]" % n if n > 1 else "bool"
    return "Tuple[%s]" % ", ".join(["bool"] * n)


def bit(var, i, n, kind):
    if kind == "int" and n == 1:
        return var
    return "%s[%d]" % (var, i)


def dnf(table, n, kind):
    terms = []
    for r in range(1 << n):
        if (table >> r) & 1:
            terms.append("(" + " and ".join(bit("x", i, n, kind) if (r >> i) & 1 else "not " + bit("x", i, n, kind) for i in range(n)) + ")")
    if not terms:
        return "False"
    if len(terms) == 1 << n:
        return "True"
    return " or ".join(terms)


def cases(shard):
    alg = shard["alg"]
    n = shard["n"]
    if alg == "dj":
        tabs = [0, (1 << (1 << n)) - 1] + list(balanced_tables(n))
        for tb in tabs[shard["lo"]:shard["hi"]]:
            forms = ["dnf_int", "dnf_tuple"] + (["table"] if n > 1 else [])
            if n == 1:
                forms = ["dnf_int"]
            for f in forms:
                yield {"alg": "dj", "n": n, "table": tb, "form": f, "key": "dj n=%d table=%s form=%s" % (n, bin(tb), f)}
    elif alg == "bv":
        for s in range(shard["lo"], shard["hi"]):
            forms = ["secret_oracle", "dot", "dot_neg"] if n > 1 else ["dot", "dot_neg"]
            if n == 4:
                forms.append("dot_nested")
            for f in forms:
                yield {"alg": "bv", "n": n, "s": s, "form": f, "key": "bv n=%d secret=%d form=%s" % (n, s, f)}
    else:
        if "inj_lo" in shard:
            import itertools
            for i, vals in enumerate(itertools.permutations(range(8), 4)):
                if shard["inj_lo"] <= i < shard["inj_hi"]:
                    yield {"alg": "simon", "n": 3, "s": shard["s"], "perm": "inj", "vals": list(vals),
                           "key": "simon n=3 period=%d values of the 4 classes=%s" % (shard["s"], list(vals))}
            return
        for k in range(7):
            yield {"alg": "simon", "n": n, "s": shard["s"], "perm": k, "key": "simon n=%d period=%d f#%d" % (n, shard["s"], k)}
        if n == 2:
            import itertools
            for vals in itertools.permutations(range(4), 2):   # every two-to-one function on 2 bits
                yield {"alg": "simon", "n": 2, "s": shard["s"], "perm": "inj", "vals": list(vals),
                       "key": "simon n=2 period=%d values of the 2 classes=%s" % (shard["s"], list(vals))}
        if n == 3:
            for a in (1, 3, 5, 7):                                # class index i -> (a*i + b) mod 8: 32 value assignments per period
                for b in range(8):
                    yield {"alg": "simon", "n": 3, "s": shard["s"], "perm": "inj", "vals": [(a * i + b) % 8 for i in range(4)],
                           "key": "simon n=3 period=%d values of the 4 classes=%s" % (shard["s"], [(a * i + b) % 8 for i in range(4)])}


def dist_of(alg):
    qc = alg.circuit()
    st = svsim.sparse_run(qc.gates, qc.num_qubits, 0)
    return svsim.sparse_marginal(st, list(alg.output_qubits)), qc.num_qubits


def denotes(qf, tables):
    """tables: list of columns (one per return bit)."""
    env, M = sim.boolev_list(qf.expressions, H.input_names(qf), lenient=True)
    return [env.get(b) for b in qf.returns.bitvec] == list(tables)


def outcome_string(y, n):
    return "".join(str((y >> i) & 1) for i in reversed(range(n)))


def value_ok(v, y, n, kind):
    if kind == "nested":
        b = [(y >> i) & 1 for i in range(4)]
        return (isinstance(v, tuple) and len(v) == 2 and isinstance(v[0], tuple) and len(v[0]) == 2 and v[0][0] is bool(b[0])
                and int(v[0][1]) == b[1] + 2 * b[2] and v[1] is bool(b[3]))
    if kind == "int" and n > 1:
        return isinstance(v, int) and not isinstance(v, bool) and int(v) == y
    if kind == "int":
        return isinstance(v, bool) and v == bool(y)
    return isinstance(v, tuple) and list(v) == [bool((y >> i) & 1) for i in range(n)]


def run_case(case):
    from qlasskit.algorithms import BernsteinVazirani, DeutschJozsa, Simon, secret_oracle
    alg = case["alg"]
    n = case["n"]
    N = 1 << n
    bad = []
    kind = "int"
    try:
        if alg == "dj":
            tb = case["table"]
            kind = "tuple" if case["form"] == "dnf_tuple" else "int"
            if case["form"] == "table":
                src = "def tfun(x: %s) -> bool:\n    c = [%s]\n    return c[x]\n" % (
                    argtype(n, "int"), ", ".join("True" if (tb >> r) & 1 else "False" for r in range(N)))
            else:
                src = "def tfun(x: %s) -> bool:\n    return %s\n" % (argtype(n, kind), dnf(tb, n, kind))
            qf = H.compile_src(src, "default", True)
            if not denotes(qf, [tb]):
                return NOT_DENOTED(src)
            a = DeutschJozsa(qf)
            table_rows = [((tb >> r) & 1,) for r in range(N)]
            sig = "def tfun(x: %s) -> bool:\n    return %s\n" % (argtype(n, kind), bit("x", 0, n, kind))
            ra = DeutschJozsa(ideal.ideal_qlassf(sig, table_rows))
            constant = tb in (0, (1 << N) - 1)
            expect = [1.0 if y == 0 else 0.0 for y in range(N)] if constant else None
        elif alg == "bv":
            s = case["s"]
            if case["form"] == "secret_oracle":
                qf = secret_oracle(n, s)
                src = "secret_oracle(%d, %d)" % (n, s)
            elif case["form"] == "dot_nested":
                # argument Tuple[Tuple[bool, Qint[2]], bool]: bits x[0][0], x[0][1][0], x[0][1][1], x[1]
                kind = "nested"
                names4 = ["x[0][0]", "x[0][1][0]", "x[0][1][1]", "x[1]"]
                terms = [names4[i] for i in range(4) if (s >> i) & 1]
                body = " ^ ".join(terms) if terms else "False"
                src = "def tfun(x: Tuple[Tuple[bool, Qint[2]], bool]) -> bool:\n    return %s\n" % body
                qf = H.compile_src(src, "default", True)
            else:
                terms = [bit("x", i, n, "int") for i in range(n) if (s >> i) & 1]
                body = " ^ ".join(terms) if terms else "False"
                if case["form"] == "dot_neg":
                    # f(x) = s.x xor 1: the constant only contributes a global phase, the register still reads s
                    body = "not (%s)" % body
                src = "def tfun(x: %s) -> bool:\n    return %s\n" % (argtype(n, "int"), body)
                qf = H.compile_src(src, "default", True)
            col = 0
            for r in range(N):
                if (bin(r & s).count("1") & 1) ^ (1 if case["form"] == "dot_neg" else 0):
                    col |= 1 << r
            if not denotes(qf, [col]):
                return NOT_DENOTED(src)
            a = BernsteinVazirani(qf)
            sig = "def tfun(x: %s) -> bool:\n    return %s\n" % (argtype(n, "int"), bit("x", 0, n, "int"))
            if kind == "nested":
                sig = "def tfun(x: Tuple[Tuple[bool, Qint[2]], bool]) -> bool:\n    return x[1]\n"
            ra = BernsteinVazirani(ideal.ideal_qlassf(sig, [((col >> r) & 1,) for r in range(N)]))
            expect = [1.0 if y == s else 0.0 for y in range(N)]
        else:
            s = case["s"]
            reps = sorted(set(min(x, x ^ s) for x in range(N)))
            k = case["perm"]
            m = len(reps)
            perm = list(range(m))
            if k == "inj":
                perm = list(case["vals"])
            if k == 1:
                perm = perm[::-1]
            elif k == 2:
                perm = perm[1:] + perm[:1]
            val = {rep: perm[i] for i, rep in enumerate(reps)}
            tab = [val[min(x, x ^ s)] for x in range(N)]
            w = 2 if max(tab) < 4 else 4
            if k == "inj":
                w = n
            src = "def tfun(x: Qint[%d]) -> Qint[%d]:\n    c = [%s]\n    return c[x]\n" % (n, w, ", ".join(str(v) for v in tab))
            if k in (3, 4):
                # tables with values spread over the whole n-bit range (the representative itself / an affine image of it)
                tab = [min(x, x ^ s) if k == 3 else (min(x, x ^ s) * 3 + 1) % N for x in range(N)]
                w = n
                src = "def tfun(x: Qint[%d]) -> Qint[%d]:\n    c = [%s]\n    return c[x]\n" % (n, w, ", ".join(str(v) for v in tab))
            elif k == 5:
                # computed, not tabulated: f(x) = min(x, x ^ s) + 1
                tab = [min(x, x ^ s) + 1 for x in range(N)]
                w = n
                src = "def tfun(x: Qint[%d]) -> Qint[%d]:\n    y = x ^ %d\n    return (x if x < y else y) + 1\n" % (n, w, s)
            elif k == 6:
                # computed: clear the lowest set bit of s by xoring s in when that bit of x is set
                j = (s & -s).bit_length() - 1
                tab = [(x ^ s) if (x >> j) & 1 else x for x in range(N)]
                w = n
                src = "def tfun(x: Qint[%d]) -> Qint[%d]:\n    return (x ^ %d) if x[%d] else x\n" % (n, w, s, j)
            qf = H.compile_src(src, "default", True)
            cols = [sum(((tab[r] >> j) & 1) << r for r in range(N)) for j in range(w)]
            if not denotes(qf, cols):
                return NOT_DENOTED(src)
            a = Simon(qf)
            sig = "def tfun(x: Qint[%d]) -> Qint[%d]:\n    return x\n" % (n, w) if w == n else \
                  "def tfun(x: Qint[%d]) -> Qint[%d]:\n    return 0\n" % (n, w)
            ra = Simon(ideal.ideal_qlassf(sig, [tuple((tab[r] >> j) & 1 for j in range(w)) for r in range(N)]))
            good = [y for y in range(N) if bin(y & s).count("1") % 2 == 0]
            expect = [1.0 / len(good) if y in good else 0.0 for y in range(N)]
        dist, nq = dist_of(a)
        rdist, _ = dist_of(ra)
    except Exception as e:
        return {"status": "violation", "rows": 0, "nontrivial": True, "outcome": "raised",
                "detail": {"why": "construction or simulation raised", "exc": "%s: %s" % (H.exc_name(e), str(e)[:120]), "case": case["key"]},
                "digest": "raised:" + H.exc_name(e)}

    def judge(d, who):
        probs = []
        if len(d) != N:
            return ["%s: %d outcomes instead of %d" % (who, len(d), N)]
        if expect is not None:
            dm = max(abs(x - y) for x, y in zip(d, expect))
            if dm > 1e-9:
                probs.append("%s: distribution is off the guarantee by %.6f (p = %s)" % (who, dm, [round(x, 4) for x in d][:16]))
        else:  # balanced
            if d[0] > 1e-9:
                probs.append("%s: balanced function measured all-zeros with probability %.6f" % (who, d[0]))
        return probs

    p_comp = judge(dist, "compiled black box")
    p_ideal = judge(rdist, "ideal black box")
    for p in p_ideal:
        bad.append({"why": p, "attribution": "algorithm wrapper"})
    for p in p_comp:
        bad.append({"why": p, "attribution": "algorithm wrapper" if p_ideal else "compiled black box (C02/C03/C06)"})
    # decode_counts on counts taken over ALL qubits (each logical outcome split over several raw strings), with a discard threshold that
    # the aggregated outcome passes but the raw strings do not
    try:
        nq_all = a.circuit().num_qubits
        if nq_all > n:
            counts = {}
            for y in range(N):
                if dist[y] > 1e-12:
                    for hi in (0, 1):
                        counts[("1" if hi else "0") * 1 + "0" * (nq_all - n - 1) + outcome_string(y, n)] = 40
            want_counts = {}
            for y in range(N):
                if dist[y] > 1e-12:
                    kdec = a.decode_output(outcome_string(y, n))
                    want_counts[kdec] = want_counts.get(kdec, 0) + 80
            got_counts = a.decode_counts(counts, discard_lower=60)
            if got_counts != want_counts:
                bad.append({"why": "decode_counts(discard_lower=60) on full-register counts of 40+40 shots per outcome gives %r, expected %r" % (
                    dict(list(got_counts.items())[:4]), dict(list(want_counts.items())[:4]))})
    except Exception as e:
        bad.append({"why": "decode_counts raised %s: %s" % (H.exc_name(e), str(e)[:80])})
    # decoding of every outcome that can be measured
    for y in range(N):
        if dist[y] <= 1e-12 and not (expect is not None and expect[y] > 0):
            continue
        string = outcome_string(y, n)
        try:
            v = a.decode_output(string)
        except Exception as e:
            bad.append({"why": "decode_output(%s) raised %s" % (string, H.exc_name(e))})
            break
        if alg == "dj":
            wantv = "Constant" if y == 0 else "Balanced"
            if v != wantv:
                bad.append({"why": "decode_output(%s) = %r, expected %r (argument type %s)" % (string, v, wantv, argtype(n, kind))})
                break
        else:
            if not value_ok(v, y, n, kind):
                bad.append({"why": "decode_output(%s) = %r is not %d in the argument type" % (string, v, y)})
                break
    nontrivial = (alg == "dj" and case["table"] not in (0, (1 << N) - 1)) or (alg != "dj" and case.get("s", 0) != 0)
    out = {"status": "ok", "rows": N, "nontrivial": nontrivial, "outcome": H.h12((case["key"], [round(x, 9) for x in dist])),
           "counters": {"qubits": nq}}
    if bad:
        out["status"] = "violation"
        out["detail"] = {"bad": bad[:4], "src": src}
        out["digest"] = H.h12([b["why"][:30] for b in bad])
    return out
