"""C13 — exports denote the same operation on the same qubits."""
import math

import numpy as np

from .. import circs, parsers, progs, svsim
from .. import harness as H

ID = "C13"

PH = (math.pi / 2, math.pi / 4, -math.pi / 8, 0.3)

META = {
    "rule": "states = (a) every gate sequence up to length L over the FULL exportable gate set (I X Y Z H S T P, CX CZ CP CCX, SWAP, barrier; "
            "MCX / MCtrl(Z) with 3 controls on 4 qubits, MCX with one control and MCtrl(X) with 1..n-1 controls on 3 qubits; 4 phases; all ordered qubit "
            "tuples), every 2-gate sequence additionally as a history on one object (first gate, export with every exporter, += second gate, export "
            "again) and (b) the compiled circuits of a program list "
            "(aliased qubit names, constant qubits, dotted names). Each is exported with qiskit (circuit, gate), cirq (circuit, gate), sympy "
            "(gate, circuit; on its supported gates, short circuits) and OpenQASM 2/3 text (circuit, gate). Oracle: the unitary of the exported "
            "object (qiskit Operator, cirq.unitary with the calibrated bit-order permutation, sympy represent) equals the reference state-vector "
            "simulator's, i.e. same gates on the same qubit indices; QASM text is parsed: same non-barrier gate sequence on the same indices, "
            "exactly num_qubits distinct formals with formal i naming qubit i, call on q[0..n-1] in order, phases reproduced, version header. "
            "Non-trivial = circuit with a multi-qubit or parameterised gate; distinct = distinct gate lists.",
    "bound": {"quick": "n=2 full alphabet L<=2, n=3 reduced alphabet L<=2, n=4 multi-controlled L<=2; sympy L<=2 on its subset; ~700 compiled programs",
              "thorough": "n=2 full alphabet L<=3, n=3 full alphabet L<=2 / reduced L<=3; more compiled programs"},
    "assumptions": ["qiskit's Operator, cirq.unitary and sympy's represent are the meaning of an exported object",
                    "svsim is cross-checked against circuits built directly with qiskit's own API (not through the exporter)",
                    "pennylane and qutip are not installed, hence not 'available' exporters"],
    # a case is a BLOCK of circuits (all sequences below a two-letter prefix): the per-case CPU cap is sized for a block
    "case_cap_s": 900,
    "explanation": "states = circuits; transitions = (circuit, exporter, mode) exports checked.",
}

FULL = ["x", "y", "z", "h", "s", "t", "cx", "cz_ordered", "cp", "swap_ordered", "barrier"]
RED3 = ["x", "h", "z", "cx", "cz", "ccx_ordered", "swap", "barrier"]
SYMPY_OK = ("X", "H", "CX", "Swap", "CCX", "MCX", "Barrier")
CIRQ_UNSUPPORTED = ("P",)


def alpha(cfg):
    n = cfg["n"]
    A = circs.alphabet(n, cfg["names"], phases=PH)
    if cfg.get("extra") == "PI":
        A += [("appendP", ph, q) for ph in PH for q in range(n)] + [("appendI", q) for q in range(n)]
        A += [("cp", 0.0, 0, 1), ("appendP", 0.0, 0)]
    if cfg.get("extra") == "MC":
        A += [("cp", PH[1], 0, 3)]
    return A


CONFIGS = {
    "quick": [
        {"name": "n2full", "n": 2, "names": FULL, "extra": "PI", "L": 2},
        {"name": "n3red", "n": 3, "names": RED3, "L": 2},
        {"name": "n3cp", "n": 3, "names": ["cp", "h", "cx"], "L": 2},
        {"name": "n4mc", "n": 4, "names": ["mcx", "mcz", "x", "h"], "extra": "MC", "L": 2},
        {"name": "n3mctrlx", "n": 3, "names": ["mctrlx", "mcz", "x"], "L": 2},
        {"name": "n3mcx1", "n": 3, "names": ["mcx1", "x", "h"], "L": 2},
    ],
    "thorough": [
        {"name": "n3mctrlx", "n": 3, "names": ["mctrlx", "mcz", "x", "h"], "L": 2},
        {"name": "n4mctrlx", "n": 4, "names": ["mctrlx", "mcz"], "L": 2},
        {"name": "n3mcx1", "n": 3, "names": ["mcx1", "x", "h", "cx"], "L": 2},
        {"name": "n2full", "n": 2, "names": FULL, "extra": "PI", "L": 3},
        {"name": "n3full", "n": 3, "names": FULL + ["ccx_ordered"], "extra": "PI", "L": 2},
        {"name": "n3red", "n": 3, "names": RED3, "L": 3},
        {"name": "n4mc", "n": 4, "names": ["mcx", "mcz", "x", "h", "cx"], "extra": "MC", "L": 3},
    ],
}


def make(n, seq):
    from qlasskit import QCircuit
    from qlasskit.qcircuit import gates
    qc = QCircuit(n)
    for l in seq:
        if l[0] == "appendP":
            qc.append(gates.P(), [l[2]], l[1])
        elif l[0] == "appendI":
            qc.append(gates.I(), [l[1]])
        else:
            circs.build(qc, [l])
    return qc


def shards(tier):
    out = []
    for cfg in CONFIGS[tier]:
        A = alpha(cfg)
        for sh in circs.shard_list(len(A), cfg["L"], 1):
            d = dict(sh)
            d["cfg"] = cfg
            d["k"] = "seq"
            out.append(d)
    out.append({"k": "names"})
    for sh in progs.prog_shards(["B", "S", "T"], tier):
        if sh["fam"] == "B" and (sh.get("kind") != "trees_full" or sh["size"] > (1 if tier == "quick" else 2)):
            continue
        d = dict(sh)
        d["k"] = "prog"
        out.append(d)
    return out


NAME_LISTS = [["r.0", "r_0"], ["a.0", "a_0", "a.1"], ["q1", "q0"], ["x", "x_"], ["q2", "b", "q0"], ["_ret", "_ret.0", "a"], ["a", "A"],
              ["t.0.1", "t_0_1", "t.0_1"], ["anc_0", "anc_1", "anc_0_"],
              # None = a qubit without a name (a released ancilla); another qubit is named like its positional name
              ["q2", "a", None], ["a", None, "q1"], [None, "q0", "q0_"], ["q1", None, None], [None, None]]
NAME_PROGS = [
    "def tfun(a: Qint[2], a_0: bool) -> bool:\n    return a[0] and a_0\n",
    "def tfun(a_1: bool, a: Qint[2]) -> bool:\n    return a[1] ^ a_1\n",
    "def tfun(q1: bool, q0: bool) -> bool:\n    return q1 and not q0\n",
    "def tfun(x: Tuple[bool, bool], x_0: bool, x_1: bool) -> bool:\n    return (x[0] and x_1) or (x[1] and x_0)\n",
]


def cases(shard):
    if shard["k"] == "names":
        for i, nl in enumerate(NAME_LISTS):
            yield {"k": "names", "names": nl, "key": "C13 named qubits %s, all sequences of <= 2 gates over {x,cx,h}" % nl}
        for src in NAME_PROGS:
            yield {"k": "prog", "src": src, "key": "prog|" + src}
        return
    if shard["k"] == "seq":
        cfg = shard["cfg"]
        yield {"k": "seq", "cfg": cfg, "prefix": shard["prefix"], "short": shard.get("short", False),
               "key": "C13 %s L<=%d prefix=%s%s" % (cfg["name"], cfg["L"], shard["prefix"], "+short" if shard.get("short") else "")}
    else:
        i = 0
        for c in progs.prog_cases(shard):
            i += 1
            # every 4th program of the S/T lists (the compiled circuits only contribute naming patterns)
            if shard["fam"] != "B" and i % 4 != 1:
                continue
            yield {"k": "prog", "src": c["src"], "key": "prog|" + c["src"]}


def rev_bits_perm(n):
    idx = np.arange(1 << n)
    out = np.zeros_like(idx)
    for q in range(n):
        out |= ((idx >> q) & 1) << (n - 1 - q)
    return out


def qiskit_unitary(obj, n, is_gate):
    from qiskit import QuantumCircuit
    from qiskit.quantum_info import Operator
    if is_gate:
        c = QuantumCircuit(n)
        c.append(obj, list(range(n)))
        return Operator(c).data
    return Operator(obj).data


def cirq_unitary(obj, n, is_gate):
    import cirq
    qs = cirq.LineQubit.range(n)
    if is_gate:
        c = cirq.Circuit(obj().on(*qs))
    else:
        c = obj
    U = cirq.unitary(c) if n > 0 else np.eye(1)
    if len(c.all_qubits()) != n:
        raise ValueError("cirq circuit acts on %d qubits instead of %d" % (len(c.all_qubits()), n))
    p = rev_bits_perm(n)
    return U[np.ix_(p, p)]


def sympy_unitary(expr, n):
    from sympy.physics.quantum.represent import represent
    if expr is None:
        return np.eye(1 << n, dtype=complex)
    m = represent(expr, nqubits=n)
    if not hasattr(m, "tolist"):  # a product of gates that sympy reduced to a scalar (X*X = 1)
        return complex(m) * np.eye(1 << n, dtype=complex)
    return np.array(m.tolist(), dtype=complex)


def qasm_name(g):
    """Name a gate must be printed under, derived from its class and (for controlled gates) its inner gate and control count -
    not from the gate object's own name attribute."""
    if hasattr(g, "gate") and getattr(g, "n_controls", None):
        return "c" * g.n_controls + g.gate.__class__.__name__.lower()
    cls = g.__class__.__name__
    return {"Swap": "swap", "Toffoli": "ccx"}.get(cls, cls.lower())


def check_qasm(qc, text, version, mode):
    """Compare the QASM text with the circuit; -> problem string or None."""
    try:
        q = parsers.parse_qasm(text)
    except parsers.ParseError as e:
        return "unparsable: %s" % e
    n = qc.num_qubits
    if mode == "circuit":
        if q["version"] != ("3.0" if version == 3 else "2.0"):
            return "version header %r" % q["version"]
        if version == 2 and (q["qreg"] is None or q["qreg"][1] != n):
            return "qreg %r" % (q["qreg"],)
        if q["call"] is None or q["call"][0] != q["gate"]:
            return "the declared gate is not applied"
        regs = q["call"][1]
        if [i for r, i in regs] != list(range(n)) or len(set(r for r, i in regs)) > 1:
            return "the gate is applied to %r instead of q[0..%d]" % (regs, n - 1)
    else:
        if q["version"] is not None or q["call"] is not None:
            return "gate mode printed a program"
    if q["gate"] != qc.name:
        return "gate name %r" % q["gate"]
    f = q["formals"]
    if len(f) != n or len(set(f)) != len(f):
        return "%d formals (%d distinct) for %d qubits" % (len(f), len(set(f)), n)
    pos = {nm: i for i, nm in enumerate(f)}
    want = [(g, w, p) for g, w, p in qc.gates if not g.is_nop()]
    if len(q["body"]) != len(want):
        return "%d gate lines for %d gates" % (len(q["body"]), len(want))
    for (name, par, ops), (g, w, p) in zip(q["body"], want):
        if name != qasm_name(g):
            return "gate %r printed as %r" % (g.name, name)
        if any(o not in pos for o in ops):
            return "operand %r is not a formal" % (ops,)
        if [pos[o] for o in ops] != list(w):
            return "gate %s on qubits %r printed on %r" % (g.name, list(w), [pos[o] for o in ops])
        if p is None:
            if par is not None:
                return "spurious parameter"
        else:
            if par is None:
                return "parameter %r of %s missing" % (p, g.name)
            try:
                pv = float(par)
            except ValueError:
                return "parameter %r is not a number" % par
            if abs(pv - float(p)) > 1e-9 * max(1.0, abs(float(p))):
                if par == "%.2f" % float(p):
                    return "parameter rounded to two decimals (%r printed as %r)" % (p, par)
                return "parameter %r printed as %r" % (p, par)
    return None


def check_exports(qc, n, do_sympy, unitary_ok=True):
    """-> list of (exporter/mode, problem)."""
    from qlasskit.qcircuit.exporter_qasm import QasmExporter
    probs = []
    done = 0
    kinds = set(g.__class__.__name__ for g, w, p in qc.gates)
    basek = set((g.gate.__class__.__name__ if hasattr(g, "gate") else g.__class__.__name__) for g, w, p in qc.gates)
    U = svsim.unitary(qc.gates, n) if unitary_ok else None
    before = (circs.gl(qc), dict(qc.qubit_map), qc.num_qubits)
    for fw in ("qiskit", "cirq"):
        if fw == "cirq" and (kinds & set(CIRQ_UNSUPPORTED)):
            continue
        for mode in ("circuit", "gate"):
            done += 1
            try:
                obj = qc.export(mode, fw)
                if U is None:
                    continue
                V = qiskit_unitary(obj, n, mode == "gate") if fw == "qiskit" else cirq_unitary(obj, n, mode == "gate")
            except Exception as e:
                probs.append((fw + "/" + mode, "raised %s: %s" % (H.exc_name(e), str(e)[:100])))
                continue
            if not svsim.close(U, V, 1e-8):
                probs.append((fw + "/" + mode, "unitary differs (max |diff| %.3f)" % float(np.max(np.abs(U - V)))))
    if do_sympy and kinds <= set(SYMPY_OK) and U is not None:
        for mode in ("gate", "circuit"):
            done += 1
            try:
                obj = qc.export(mode, "sympy")
                if mode == "gate":
                    V = sympy_unitary(obj, n)
                    if not svsim.close(U, V, 1e-9):
                        probs.append(("sympy/gate", "unitary differs"))
                else:
                    from sympy.physics.quantum.qapply import qapply
                    from sympy.physics.quantum.represent import represent
                    vec = np.array(represent(qapply(obj), nqubits=n).tolist(), dtype=complex)[:, 0]
                    if not np.allclose(vec, U[:, 0], atol=1e-9):
                        probs.append(("sympy/circuit", "state on |0..0> differs"))
            except Exception as e:
                probs.append(("sympy/" + mode, "raised %s: %s" % (H.exc_name(e), str(e)[:100])))
    for version in (3, 2):
        for mode in ("circuit", "gate"):
            done += 1
            try:
                text = QasmExporter(version=version).export(qc, mode)
            except Exception as e:
                probs.append(("qasm%d/%s" % (version, mode), "raised %s: %s" % (H.exc_name(e), str(e)[:100])))
                continue
            p = check_qasm(qc, text, version, mode)
            if p:
                probs.append(("qasm%d/%s" % (version, mode), p))
    try:
        t3 = qc.export("circuit", "qasm")
        if t3 != QasmExporter(version=3).export(qc, "circuit"):
            probs.append(("qasm/export()", "QCircuit.export('qasm') differs from the version 3 exporter"))
    except Exception as e:
        probs.append(("qasm/export()", "raised %s" % H.exc_name(e)))
    if (circs.gl(qc), dict(qc.qubit_map), qc.num_qubits) != before:
        probs.append(("any", "export modified the circuit"))
    return probs, done


def run_case(case):
    states = rows = nontriv = 0
    bad = []
    if case["k"] == "seq":
        cfg = case["cfg"]
        n = cfg["n"]
        A = alpha(cfg)
        for idxs in circs.seqs(A, cfg["L"], {"prefix": case["prefix"], "short": case["short"]}):
            seq = [A[i] for i in idxs]
            qc = make(n, seq)
            states += 1
            if any(len(w) > 1 or p is not None for g, w, p in qc.gates):
                nontriv += 1
            probs, done = check_exports(qc, n, do_sympy=(len(seq) <= 2))
            rows += done
            for where, p in probs:
                bad.append({"circuit": circs.text(A, idxs), "n": n, "export": where, "problem": p})
            if len(seq) == 2 and not probs:
                # history on one object: export everything, extend the circuit in place (+=, i.e. append_circuit), export again
                qh = make(n, seq[:1])
                check_exports(qh, n, do_sympy=False)
                qh += make(n, seq[1:])
                probs2, done2 = check_exports(qh, n, do_sympy=False)
                rows += done2
                for where, p in probs2:
                    bad.append({"circuit": circs.text(A, idxs) + " (first gate, export, += second gate, export again)", "n": n, "export": where, "problem": p})
            if len(bad) >= 60:
                break
        key = case["key"]
    elif case["k"] == "names":
        from qlasskit import QCircuit
        names = case["names"]
        n = len(names)
        A = circs.alphabet(n, ["x", "cx", "h"])
        for idxs in circs.seqs(A, 2, {"prefix": [], "short": False}):
            qc = QCircuit(0, name="named")
            for nm in names:
                i_q = qc.add_qubit(nm if nm is not None else "__unnamed")
                if nm is None:
                    del qc.qubit_map["__unnamed"]
            circs.build(qc, [A[i] for i in idxs])
            states += 1
            nontriv += 1
            probs, done = check_exports(qc, n, do_sympy=False)
            rows += done
            for where, p in probs:
                bad.append({"circuit": "%s on qubits named %s" % (circs.text(A, idxs), names), "n": n, "export": where, "problem": p})
            if len(bad) >= 60:
                break
        key = case["key"]
    else:
        from . import compiled_common as CC
        c = {"src": case["src"], "profile": "default", "uncompute": True}
        qf, rej = CC.compile_case(c)
        if rej:
            return rej
        qc = qf.circuit()
        n = qc.num_qubits
        states = 1
        nontriv = 1
        probs, done = check_exports(qc, n, do_sympy=False, unitary_ok=(n <= 8))
        rows = done
        for where, p in probs:
            bad.append({"program": case["src"], "n": n, "export": where, "problem": p, "qubit_map": dict(list(qc.qubit_map.items())[:20])})
        if not probs:
            # history on the wrapper: gate()/export() through the QlassF, recompile without uncomputation, gate()/export() again -
            # what the wrapper hands out must be the export of the circuit it holds NOW
            try:
                for fw in ("qasm", "qiskit"):
                    qf.gate(fw)
                    qf.export(fw)
                qf.compile("internal", uncompute=False)
                qc2 = qf.circuit()
                for mode, got in (("gate", qf.gate("qasm")), ("circuit", qf.export("qasm"))):
                    want = qc2.export(mode, "qasm")
                    rows += 1
                    if got != want:
                        bad.append({"program": case["src"], "n": qc2.num_qubits, "export": "wrapper qasm/" + mode,
                                    "problem": "after gate(), compile(uncompute=False), gate(): the wrapper returns a stale export"})
                if qc2.num_qubits <= 8:
                    for mode, obj in (("gate", qf.gate("qiskit")), ("circuit", qf.export("qiskit"))):
                        rows += 1
                        if obj.num_qubits != qc2.num_qubits or not svsim.close(svsim.unitary(qc2.gates, qc2.num_qubits), qiskit_unitary(obj, qc2.num_qubits, mode == "gate"), 1e-8):
                            bad.append({"program": case["src"], "n": qc2.num_qubits, "export": "wrapper qiskit/" + mode,
                                        "problem": "after gate(), compile(uncompute=False), gate(): the wrapper returns a stale export"})
            except Exception as e:
                bad.append({"program": case["src"], "n": n, "export": "wrapper history", "problem": "raised %s: %s" % (H.exc_name(e), str(e)[:100])})
        key = case["key"]
    out = {"status": "ok", "rows": rows, "states": states, "nontrivial": nontriv > 0, "outcome": H.h12(key),
           "counters": {"nontrivial_circuits": nontriv}}
    if bad:
        out["status"] = "violation"
        out["detail"] = {"bad": bad[:6], "n_bad": len(bad)}
        out["digest"] = H.h12(sorted(set((b["export"], b["problem"][:30]) for b in bad)))
    return out


def conformance(tier):
    """svsim vs qiskit's own API (not the exporter) on every alphabet letter and a few pairs; cirq bit order calibration."""
    from qiskit import QuantumCircuit
    from qiskit.circuit.library.standard_gates import ZGate
    from qiskit.quantum_info import Operator
    fails = []
    cnt = 0
    for cfg in CONFIGS["quick"]:
        n = cfg["n"]
        A = alpha(cfg)
        seqs = [[a] for a in A] + [[A[i], A[(i * 7 + 3) % len(A)]] for i in range(len(A))]
        for seq in seqs:
            qc = make(n, seq)
            q = QuantumCircuit(n)
            for l in seq:
                m = l[0]
                if m == "appendP":
                    q.p(l[1], l[2])
                elif m == "appendI":
                    q.id(l[1])
                elif m == "cp":
                    q.cp(l[1], l[2], l[3])
                elif m == "mcx":
                    q.mcx(list(l[1]), l[2])
                elif m == "mctrl" and l[1] == "X":
                    q.mcx(list(l[2]), l[3])
                elif m == "mctrl":
                    q.append(ZGate().control(len(l[2])), list(l[2]) + [l[3]])
                elif m == "barrier":
                    q.barrier()
                else:
                    getattr(q, m)(*l[1:])
            cnt += 1
            if not svsim.close(svsim.unitary(qc.gates, n), Operator(q).data, 1e-9):
                fails.append("svsim differs from qiskit's own construction on %r" % (seq,))
    import cirq
    qs = cirq.LineQubit.range(2)
    V = cirq.unitary(cirq.Circuit(cirq.X(qs[0]), cirq.I(qs[1])))
    p = rev_bits_perm(2)
    from qlasskit import QCircuit
    qx = QCircuit(2)
    qx.x(0)
    cnt += 1
    if not svsim.close(svsim.unitary(qx.gates, 2), V[np.ix_(p, p)]):
        fails.append("cirq bit-order calibration failed")
    return cnt, fails
