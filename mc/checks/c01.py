"""C01 — boolean expressions mean what the Python source means."""
from .. import harness as H
from .. import progs, pyref, sim
from . import compiled_common as CC

ID = "C01"
PROFILES = ["default", "fast"]
FAMS = ["B", "I1", "S", "T", "R", "M"]
TT_MAX_N = 4

META = {
    "rule": "cases = every program of the bounded typed grammar (families B bool expressions, I1 integer expressions, "
            "S statements, T types/builtins, R should-be-rejected constructs, M straight-line boolean programs with temporaries; mc/progs.py) x {default,fast} optimizer, translated "
            "by the real qlassf(to_compile=False). Oracle = pyref: CPython executes the same source on exact integers "
            "with width/overflow tracking, for ALL 2^n argument values; exact where no intermediate overflowed, low determined "
            "bits otherwise, undetermined rows only counted. truth_table() is compared on all rows for n <= %d. Non-trivial = "
            "some return bit non-constant and depending on >= 2 input bits; distinct = distinct expected truth tables." % TT_MAX_N,
    "bound": {"quick": "B <=3 ops; I1 depth 1 over 5 width pairs + depth 2 over reduced leaves (2,2); S, T, R quick lists; M 1 840 programs",
              "thorough": "B <=4 ops; I1 depth 2 over more width pairs; S, T, R thorough lists"},
    "assumptions": [
        "CPython's evaluation of the generated source is the meaning of the program; RefInt width rules are the documented ones "
        "(constants: smallest of 2/4/6/8/12/16 bits; + - & | ^: wider operand; *: size bucket of twice the wider width)",
        "a rejected program (any exception) satisfies the property; programs the reference model does not define are counted as unjudged",
    ],
    "explanation": "states = translated (program, profile) cases; transitions = argument values on which the oracle was evaluated.",
}


def fams():
    return [f for f in FAMS if f in progs.FAMILIES]


def shards(tier):
    out = []
    for sh in progs.prog_shards(fams(), tier):
        for p in PROFILES:
            d = dict(sh)
            d["profile"] = p
            out.append(d)
    return out


def cases(shard):
    p = shard["profile"]
    for c in progs.prog_cases(shard):
        c = dict(c)
        c["profile"] = p
        c["key"] = "%s|%s" % (p, c["src"])
        yield c


def judge(qf, pr, params=None, tt=True):
    """Compare qf.expressions (and truth_table) with the reference program.  -> (bad, info)"""
    bad = []
    names = H.input_names(qf)
    n = len(names)
    info = {"n": n, "rows": 1 << n, "und": 0, "retcols": None}
    if n != pr.n_inputs():
        bad.append({"why": "argument bit count differs from the declared types", "library": n, "declared": pr.n_inputs()})
        return bad, info
    wret = pr.ret.width()
    if len(qf.returns.bitvec) != wret:
        bad.append({"why": "return bit count differs from the declared type", "library": len(qf.returns.bitvec), "declared": wret})
        return bad, info
    # a definition that reads an undefined symbol is poisoned; it only matters if a return bit depends on it
    env, M = sim.boolev_list(qf.expressions, names, lenient=True)
    want, care, und = pr.table(params)
    info["und"] = und
    info["retcols"] = (tuple(want), tuple(care))
    rows = 1 << n
    for i, bit in enumerate(qf.returns.bitvec):
        if bit not in env or bit in names and not any(s.name == bit for s, e in qf.expressions):
            bad.append({"why": "return bit has no defining expression (or depends on a free symbol)", "bit": bit})
            continue
        d = (env[bit] ^ want[i]) & care[i]
        if d:
            bad.append({"why": "expression differs from the Python value", "bit": bit, "index": i,
                        "wrong_rows": sim.popcount(d), "first_rows": sim.rows_of(d, rows)})
    if not bad and tt and n <= TT_MAX_N and len(qf.expressions) <= 24:
        try:
            table = qf.truth_table()
        except Exception as e:
            bad.append({"why": "truth_table() raised", "exc": H.exc_name(e)})
            table = None
        if table is not None:
            if len(table) != rows:
                bad.append({"why": "truth_table() row count", "rows": len(table)})
            else:
                for ti, line in enumerate(table):
                    ins = line[:n]
                    outs = line[n:]
                    r = sum((1 << j) for j in range(n) if bool(ins[j]))
                    if len(outs) != wret:
                        bad.append({"why": "truth_table() output width", "row": ti})
                        break
                    for i, o in enumerate(outs):
                        if o is True or o is False or o in (0, 1):
                            ov = bool(o)
                        else:
                            s = str(o)
                            if s == "True":
                                ov = True
                            elif s == "False":
                                ov = False
                            else:
                                bad.append({"why": "truth_table() entry is not a constant", "row": ti, "entry": s[:60]})
                                break
                        ev = bool((env[qf.returns.bitvec[i]] >> r) & 1)
                        if ov != ev:
                            bad.append({"why": "truth_table() differs from the expressions", "row": r, "bit": i})
                            break
                    if bad:
                        break
        info["tt_rows"] = rows
    return bad, info


def run_case(case):
    try:
        pr = pyref.Program(case["src"])
        perr = None
    except pyref.Unsupported as e:
        pr = None
        perr = str(e)
    try:
        qf = H.translate(case["src"], case["profile"])
    except Exception as e:
        return {"status": "rejected", "rows": 0, "nontrivial": False, "outcome": "rej:" + H.exc_name(e),
                "counters": {"rejected_" + H.exc_name(e): 1}}
    if not hasattr(qf, "expressions") or isinstance(getattr(type(qf), "expressions", None), property):
        return {"status": "skipped", "rows": 0, "nontrivial": False, "outcome": "unbound"}
    if pr is None:
        return {"status": "unjudged", "rows": 0, "nontrivial": False, "outcome": "unjudged", "counters": {"unjudged": 1}}
    try:
        bad, info = judge(qf, pr)
    except pyref.Unsupported as e:
        return {"status": "unjudged", "rows": 0, "nontrivial": False, "outcome": "unjudged", "counters": {"unjudged": 1}}
    n = info["n"]
    M = sim.mask(n)
    nontrivial = False
    if info["retcols"]:
        want, care = info["retcols"]
        nontrivial = any(c == M and w not in (0, M) and CC.support_size(w, n, M) >= 2 for w, c in zip(want, care))
    out = {"status": "ok", "rows": info["rows"], "nontrivial": nontrivial, "outcome": H.h12((n, info["retcols"])),
           "counters": {"undetermined_rows": info["und"], "truth_table_rows": info.get("tt_rows", 0)}}
    if bad:
        out["status"] = "violation"
        out["detail"] = {"bad": bad[:4], "n_inputs": n, "expressions": [str(e) for e in qf.expressions][:16]}
        out["digest"] = H.h12([(b.get("bit"), b["why"], b.get("wrong_rows"), b.get("first_rows")) for b in bad])
    return out
