"""Conversions between reference values (pyref) and library-level values, and their comparison."""
from fractions import Fraction

from . import pyref


def lib_class(t):
    from qlasskit import types as T
    if t.kind == "int":
        for c in T.QINT_TYPES:
            if c.BIT_SIZE == t.a[0]:
                return c
        raise pyref.Unsupported("no Qint%d" % t.a[0])
    if t.kind == "fixed":
        for c in T.QFIXED_TYPES:
            if (c.BIT_SIZE_INTEGER, c.BIT_SIZE_FRACTIONAL) == tuple(t.a):
                return c
        raise pyref.Unsupported("no Qfixed%d_%d" % tuple(t.a))
    if t.kind == "char":
        return T.Qchar
    raise pyref.Unsupported(t.kind)


def to_lib(t, v):
    """Reference value -> the value a user would pass to encode_input."""
    if t.kind == "bool":
        return bool(v)
    if t.kind == "int":
        return lib_class(t)(v.v)
    if t.kind == "fixed":
        return lib_class(t)(float(v.v))
    if t.kind == "char":
        return lib_class(t)(v)
    if t.kind == "tuple":
        return tuple(to_lib(x, e) for x, e in zip(t.a, v))
    raise pyref.Unsupported(t.kind)


def same(t, libv, refv, loose_bool=False):
    """Is the library-level value libv the value refv of type t (also of the right Python kind)?
    loose_bool: accept 0/1 for a bool (values read from integer sample sets)."""
    if t.kind == "tuple":
        if not isinstance(libv, (tuple, list)) or len(libv) != len(refv):
            return False
        return all(same(x, a, b, loose_bool) for x, a, b in zip(t.a, libv, refv))
    if t.kind == "bool":
        if loose_bool:
            return libv in (0, 1, True, False) and bool(libv) == refv
        return isinstance(libv, bool) and libv == refv
    if t.kind == "int":
        return isinstance(libv, int) and not isinstance(libv, bool) and int(libv) == refv.v
    if t.kind == "fixed":
        return isinstance(libv, float) and Fraction(float(libv)) == refv.v
    if t.kind == "char":
        return isinstance(libv, str) and str(libv) == refv
    return False


def show(v):
    if isinstance(v, (tuple, list)):
        return "(" + ", ".join(show(x) for x in v) + ")"
    if isinstance(v, pyref.RefInt):
        return str(v.v)
    if isinstance(v, pyref.RefFixed):
        return str(float(v.v))
    if isinstance(v, bool):
        return str(v)
    if isinstance(v, float):
        return repr(float(v))
    if isinstance(v, int):
        return str(int(v))
    return repr(v)
