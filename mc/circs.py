"""E2 circuit space: all gate sequences up to a length over a finite alphabet, built through the real
QCircuit API (DESIGN.md §3.3).

An alphabet entry is a tuple (method, args...) e.g. ("cx", 0, 1), ("cp", 0.3, 1, 0), ("mcx", (0, 1, 2), 3),
("mctrl", "Z", (0, 1), 2), ("barrier",), ("append_shared", "X", (0,)).
seqs(alphabet, L)  enumerates every sequence of length <= L exactly once, shortest first inside a shard;
shards are keyed by the first `plen` letters.
"""
import itertools
import math


def alphabet(n, names, phases=(math.pi / 2,)):
    A = []
    for nm in names:
        if nm in ("x", "h", "z", "y", "s", "t"):
            A += [(nm, q) for q in range(n)]
        elif nm in ("cx", "cz"):
            A += [(nm, a, b) for a in range(n) for b in range(n) if a != b] if nm == "cx" else \
                 [(nm, a, b) for a in range(n) for b in range(a + 1, n)]
        elif nm == "cz_ordered":
            A += [("cz", a, b) for a in range(n) for b in range(n) if a != b]
        elif nm == "swap":
            A += [(nm, a, b) for a in range(n) for b in range(a + 1, n)]
        elif nm == "swap_ordered":
            A += [("swap", a, b) for a in range(n) for b in range(n) if a != b]
        elif nm == "ccx":
            A += [(nm, a, b, c) for c in range(n) for a in range(n) for b in range(a + 1, n) if c not in (a, b)]
        elif nm == "ccx_ordered":
            A += [("ccx", a, b, c) for a in range(n) for b in range(n) for c in range(n) if len({a, b, c}) == 3]
        elif nm == "cp":
            A += [(nm, ph, a, b) for ph in phases for a in range(n) for b in range(n) if a != b]
        elif nm == "mcx":
            A += [(nm, tuple(c for c in range(n) if c != t), t) for t in range(n)] if n >= 3 else []
        elif nm == "mcx1":
            A += [("mcx", (c,), t) for c in range(n) for t in range(n) if c != t]
        elif nm == "shared":
            # ONE X and ONE CX gate object per circuit, applied through append(): the same objects recur in several runs
            A += [("append_shared", "X", (q,)) for q in range(n)] + [("append_shared", "CX", (a, b)) for a in range(n) for b in range(n) if a != b]
        elif nm == "mcz":
            A += [("mctrl", "Z", tuple(c for c in range(n) if c != t), t) for t in range(n)] if n >= 2 else []
        elif nm == "mctrlx":
            # a multi-controlled X built through mctrl(gates.X(), ...) (class MCtrl, not MCX), 1..n-1 controls
            for t in range(n):
                cs = [c for c in range(n) if c != t]
                A += [("mctrl", "X", tuple(cs[:k]), t) for k in range(1, len(cs) + 1)]
        elif nm == "fan":
            # compiled-circuit shape: a 3-qubit register feeding scratch qubits 3..n-1 (controls in the register, targets outside)
            reg = [0, 1, 2]
            A += [("x", q) for q in reg]
            A += [("cx", c, t) for c in reg for t in range(3, n)]
            A += [("ccx", a, b, t) for a in reg for b in reg if a < b for t in range(3, n)]
        elif nm == "barrier":
            A += [("barrier",)]
        else:
            raise ValueError(nm)
    return A


def build(qc, seq, shared=None):
    """Apply a sequence of alphabet letters to the real circuit object qc."""
    from qlasskit.qcircuit import gates
    for letter in seq:
        m = letter[0]
        if m == "mctrl":
            g = getattr(gates, letter[1])()
            qc.mctrl(g, list(letter[2]), letter[3])
        elif m == "mcx":
            qc.mcx(list(letter[1]), letter[2])
        elif m == "append_shared":
            qc.append(shared[letter[1]], list(letter[2]))
        else:
            getattr(qc, m)(*letter[1:])
    return qc


def make(n, seq, shared=None):
    from qlasskit import QCircuit
    if shared is None and any(l[0] == "append_shared" for l in seq):
        from qlasskit.qcircuit import gates
        shared = {"X": gates.X(), "CX": gates.CX()}
    return build(QCircuit(n), seq, shared)


def shard_list(alpha_len, L, plen=2):
    """Shards = index tuples of the first plen letters (shorter sequences go with the first shard)."""
    plen = min(plen, L)
    out = [{"prefix": list(p)} for p in itertools.product(range(alpha_len), repeat=plen)]
    out[0]["short"] = True
    return out


def seqs(A, L, shard):
    """All sequences of length <= L whose first letters are the shard prefix (index tuples)."""
    prefix = tuple(shard["prefix"])
    plen = len(prefix)
    if shard.get("short"):
        for l in range(0, plen):
            for p in itertools.product(range(len(A)), repeat=l):
                yield p
    for l in range(plen, L + 1):
        for suf in itertools.product(range(len(A)), repeat=l - plen):
            yield prefix + suf


def text(A, idxs):
    return " ".join("%s%s" % (A[i][0], list(A[i][1:])) for i in idxs) if idxs else "(empty)"


def gl(qc):
    """Canonical gate list of a circuit: (class name, base gate name, qubits, param)."""
    out = []
    for g, w, p in qc.gates:
        base = g.gate.__class__.__name__ if hasattr(g, "gate") else None
        out.append((g.__class__.__name__, base, tuple(w), p))
    return out
