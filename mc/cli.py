"""./run <Cxx> <quick|thorough> [--replay file] [--collect file]"""
import sys

from . import engine


def main(argv):
    if len(argv) < 1:
        print(__doc__)
        return 2
    pid = argv[0].upper()
    modname = "mc.checks." + pid.lower()
    rest = argv[1:]
    if "--replay" in rest:
        return engine.replay(modname, rest[rest.index("--replay") + 1])
    tier = "quick"
    collect = None
    i = 0
    while i < len(rest):
        if rest[i] in ("quick", "thorough"):
            tier = rest[i]
        elif rest[i] == "--collect":
            i += 1
            collect = rest[i]
        i += 1
    import os

    tier = os.environ.get("VERIF_TIER_FORCE", tier)
    return engine.main(modname, tier, collect)


if __name__ == "__main__":
    sys.exit(main(sys.argv[1:]))
