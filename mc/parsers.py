"""Readers for the text formats the library emits (lenient, whitespace delimited)."""
import re


class ParseError(Exception):
    pass


def parse_qasm(text):
    """Parse the OpenQASM dialect written by qlasskit's QasmExporter.

    Returns dict: version (str or None), includes, qreg (name, size) or None, gate name, formals (list),
    body: list of (gate name, param string or None, [operand names]), call: (name, [(reg, index)...]) or None.
    """
    out = {"version": None, "includes": [], "qreg": None, "gate": None, "formals": [], "body": [], "call": None}
    lines = text.split("\n")
    i = 0
    in_gate = False
    for raw in lines:
        line = raw.strip()
        if not line:
            continue
        if in_gate:
            if line == "}":
                in_gate = False
                continue
            m = re.match(r"^([A-Za-z_][A-Za-z_0-9]*)(?:\(([^)]*)\))?\s*(.*)$", line)
            if not m:
                raise ParseError("gate body line %r" % raw)
            ops = [x for x in re.split(r"[\s,]+", m.group(3).rstrip(";")) if x]
            out["body"].append((m.group(1), m.group(2), ops))
            continue
        if line.startswith("OPENQASM"):
            m = re.match(r"^OPENQASM\s+([0-9.]+)\s*;$", line)
            if not m:
                raise ParseError("version line %r" % raw)
            out["version"] = m.group(1)
        elif line.startswith("include"):
            out["includes"].append(line)
        elif line.startswith("qreg"):
            m = re.match(r"^qreg\s+(\w+)\[(\d+)\]\s*;$", line)
            if not m:
                raise ParseError("qreg line %r" % raw)
            out["qreg"] = (m.group(1), int(m.group(2)))
        elif line.startswith("gate "):
            if not line.endswith("{"):
                raise ParseError("gate header %r" % raw)
            toks = line[5:-1].split()
            if not toks:
                raise ParseError("gate header without a name %r" % raw)
            out["gate"] = toks[0]
            out["formals"] = toks[1:]
            in_gate = True
        else:
            m = re.match(r"^(\S+)\s+(.*);$", line)
            if not m:
                raise ParseError("statement %r" % raw)
            args = []
            for a in m.group(2).split(","):
                mm = re.match(r"^\s*(\w+)\[(\d+)\]\s*$", a)
                if not mm:
                    raise ParseError("call operand %r" % a)
                args.append((mm.group(1), int(mm.group(2))))
            out["call"] = (m.group(1), args)
    if in_gate:
        raise ParseError("unterminated gate body")
    return out


def parse_dimacs(text):
    """-> (nvars, nclauses_declared, clauses as lists of ints)."""
    nv = nc = None
    clauses = []
    for raw in text.split("\n"):
        line = raw.strip()
        if not line or line.startswith("c"):
            continue
        if line.startswith("p"):
            t = line.split()
            if len(t) != 4 or t[1] != "cnf":
                raise ParseError("problem line %r" % raw)
            nv, nc = int(t[2]), int(t[3])
            continue
        lits = [int(x) for x in line.split()]
        if not lits or lits[-1] != 0:
            raise ParseError("clause not terminated by 0: %r" % raw)
        if any(l == 0 for l in lits[:-1]):
            raise ParseError("0 inside a clause: %r" % raw)
        clauses.append(lits[:-1])
    if nv is None:
        raise ParseError("no problem line")
    return nv, nc, clauses


def parse_sympy_bool(text, names=None):
    """Parse the str() form of a sympy boolean expression (symbols may contain dots).
    Grammar (sympy's printer): Or '|' lowest, Xor '^', And '&', Not '~' highest; function forms
    ITE(..), Implies(..), Equivalent(..), Xor(..)...; True / False."""
    from sympy import Symbol
    from sympy.logic.boolalg import ITE, And, Equivalent, Implies, Nand, Nor, Not, Or, Xnor, Xor, false, true
    toks = re.findall(r"\s*([A-Za-z_][A-Za-z_0-9.]*|[()~&|^,])", text)
    if "".join(toks) != re.sub(r"\s+", "", text):
        raise ParseError("cannot tokenise %r" % text)
    pos = [0]
    funcs = {"ITE": ITE, "Implies": Implies, "Equivalent": Equivalent, "Xor": Xor, "And": And, "Or": Or, "Not": Not,
             "Nand": Nand, "Nor": Nor, "Xnor": Xnor}

    def peek():
        return toks[pos[0]] if pos[0] < len(toks) else None

    def eat(t=None):
        tok = peek()
        if tok is None or (t is not None and tok != t):
            raise ParseError("expected %r at token %d of %r" % (t, pos[0], text))
        pos[0] += 1
        return tok

    # sympy prints with precedence: | lowest, then ^, then & (see sympy.printing.precedence)
    def p_or():
        args = [p_xor()]
        while peek() == "|":
            eat()
            args.append(p_xor())
        return Or(*args) if len(args) > 1 else args[0]

    def p_xor():
        args = [p_and()]
        while peek() == "^":
            eat()
            args.append(p_and())
        return Xor(*args) if len(args) > 1 else args[0]

    def p_and():
        args = [p_not()]
        while peek() == "&":
            eat()
            args.append(p_not())
        return And(*args) if len(args) > 1 else args[0]

    def p_not():
        if peek() == "~":
            eat()
            return Not(p_not())
        return p_atom()

    def p_atom():
        tok = eat()
        if tok == "(":
            e = p_or()
            eat(")")
            return e
        if tok in funcs and peek() == "(":
            eat("(")
            args = [p_or()]
            while peek() == ",":
                eat()
                args.append(p_or())
            eat(")")
            return funcs[tok](*args)
        if tok == "True":
            return true
        if tok == "False":
            return false
        if re.match(r"^[A-Za-z_]", tok):
            if names is not None and tok not in names:
                raise ParseError("unknown symbol %s" % tok)
            return Symbol(tok)
        raise ParseError("unexpected token %r" % tok)

    e = p_or()
    if pos[0] != len(toks):
        raise ParseError("trailing tokens in %r" % text)
    return e
