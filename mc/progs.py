"""E1 program space: typed grammar enumerators (DESIGN.md §3.1).

prog_shards(families, tier) -> list of shard descriptors
prog_cases(shard)           -> iterator of {"src": str, "fam": str}

Every family is a finite set, enumerated completely and deterministically, simplest first.
The function is always called `tfun` (a name that cannot collide with a global of
qlasskit/qlassfun.py into which the library exec's the source).
"""
import functools
import itertools

VARS = "abcde"

# ----------------------------------------------------------------------------------------
# Family B: boolean expressions
# ----------------------------------------------------------------------------------------
BIN = ["and", "or", "^", "==", "!="]


@functools.lru_cache(maxsize=None)
def b_trees(size, ops=("not", "and", "or", "^", "==", "!=", "ite")):
    """All expression tree shapes with exactly `size` operator nodes; leaves are 'v'."""
    if size == 0:
        return ("v",)
    out = []
    if "not" in ops:
        for t in b_trees(size - 1, ops):
            out.append(("not", t))
    for op in BIN:
        if op not in ops:
            continue
        for i in range(size):
            for l in b_trees(i, ops):
                for r in b_trees(size - 1 - i, ops):
                    out.append((op, l, r))
    if "ite" in ops:
        for i in range(size):
            for j in range(size - i):
                k = size - 1 - i - j
                for c in b_trees(i, ops):
                    for t in b_trees(j, ops):
                        for e in b_trees(k, ops):
                            out.append(("ite", c, t, e))
    return tuple(out)


def n_leaves(t):
    if t == "v":
        return 1
    return sum(n_leaves(x) for x in t[1:])


def rgs(n, maxk):
    """Restricted growth strings of length n with at most maxk distinct values."""
    def rec(prefix, mx):
        if len(prefix) == n:
            yield tuple(prefix)
            return
        for v in range(min(mx + 1, maxk - 1) + 1):
            yield from rec(prefix + [v], max(mx, v))
    if n == 0:
        yield ()
        return
    yield from rec([0], 0)


def b_render(t, labels):
    """labels: list consumed left-to-right."""
    it = iter(labels)

    def r(t):
        if t == "v":
            return VARS[next(it)]
        if t[0] == "not":
            return "(not %s)" % r(t[1])
        if t[0] == "ite":
            c = r(t[1])
            a = r(t[2])
            b = r(t[3])
            return "(%s if %s else %s)" % (a, c, b)
        l = r(t[1])
        rr = r(t[2])
        return "(%s %s %s)" % (l, t[0], rr)

    # evaluation order of labels must be left-to-right in tree order (c, t, e for ite)
    return r(t)


def b_src(expr, nvars):
    args = ", ".join("%s: bool" % VARS[i] for i in range(nvars))
    return "def tfun(%s) -> bool:\n    return %s\n" % (args, expr)


def _b_full_labelings(nl, nvars):
    """All labelings of nl leaves over exactly-available nvars variables (not reduced)."""
    return itertools.product(range(nvars), repeat=nl)


def b_shape_templates():
    """Sign patterns of 3/4-literal conjunctions/disjunctions joined by or/and/^ and n-ary
    chains: the forms the optimizer's pattern rules key on."""
    out = []
    for k in (2, 3, 4):
        vs = VARS[:k]
        for inner, outer in (("and", "or"), ("or", "and"), ("and", "^")):
            for s1 in itertools.product((0, 1), repeat=k):
                for s2 in itertools.product((0, 1), repeat=k):
                    if s2 < s1:
                        continue
                    t1 = (" %s " % inner).join(("not " + v) if s else v for v, s in zip(vs, s1))
                    t2 = (" %s " % inner).join(("not " + v) if s else v for v, s in zip(vs, s2))
                    out.append((b"".decode() + "(%s) %s (%s)" % (t1, outer, t2), k))
    # n-ary chains with every sign pattern
    for k in (3, 4, 5):
        vs = VARS[:k]
        for op in ("or", "and", "^"):
            for s in itertools.product((0, 1), repeat=k):
                out.append(((" %s " % op).join(("(not %s)" % v) if x else v for v, x in zip(vs, s)), k))
    # nested n-ary under binary (the first mis-synthesised shape found by probing)
    for k in (4, 5):
        vs = VARS[:k]
        for o1, o2, o3 in itertools.product(("and", "or", "^"), repeat=3):
            inner = (" %s " % o1).join(vs[1:k - 1])
            out.append(("(%s %s (%s)) %s %s" % (vs[0], o2, inner, o3, vs[k - 1]), k))
    return out


def b_cases(shard):
    kind = shard["kind"]
    if kind == "trees":
        size, lo, hi, maxk = shard["size"], shard["lo"], shard["hi"], shard["maxk"]
        ops = tuple(shard.get("ops") or ("not", "and", "or", "^", "==", "!=", "ite"))
        trees = b_trees(size, ops)
        for t in trees[lo:hi]:
            nl = n_leaves(t)
            for lab in rgs(nl, maxk):
                nv = max(lab) + 1
                yield {"src": b_src(b_render(t, lab), nv), "fam": "B"}
    elif kind == "trees_full":
        size, lo, hi, nv = shard["size"], shard["lo"], shard["hi"], shard["nvars"]
        trees = b_trees(size)
        for t in trees[lo:hi]:
            nl = n_leaves(t)
            for lab in _b_full_labelings(nl, nv):
                yield {"src": b_src(b_render(t, lab), nv), "fam": "B"}
    elif kind == "templates":
        tl = b_shape_templates()
        for e, k in tl[shard["lo"]:shard["hi"]]:
            yield {"src": b_src(e, k), "fam": "B"}
    else:
        raise ValueError(kind)


def b_shards(tier):
    out = []
    # complete, unreduced labelings for the smallest trees (argument order matters to the library)
    for size, nv in ((0, 1), (1, 2), (1, 3), (2, 2), (2, 3)):
        n = len(b_trees(size))
        step = 25
        for lo in range(0, n, step):
            out.append({"fam": "B", "kind": "trees_full", "size": size, "lo": lo, "hi": min(n, lo + step), "nvars": nv})
    ntl = len(b_shape_templates())
    for lo in range(0, ntl, 60):
        out.append({"fam": "B", "kind": "templates", "lo": lo, "hi": min(ntl, lo + 60)})
    # reduced labelings (variables numbered by first occurrence)
    sizes = [(3, 5)] if tier == "quick" else [(3, 5), (4, 4)]
    for size, maxk in sizes:
        if size == 4:
            ops = ("not", "and", "or", "^", "ite")
        else:
            ops = None
        n = len(b_trees(size, ops) if ops else b_trees(size))
        step = 12 if size == 3 else 40
        for lo in range(0, n, step):
            d = {"fam": "B", "kind": "trees", "size": size, "lo": lo, "hi": min(n, lo + step), "maxk": maxk}
            if ops:
                d["ops"] = list(ops)
            out.append(d)
    return out


# ----------------------------------------------------------------------------------------
FAMILIES = {"B": (b_shards, b_cases)}


def prog_shards(families, tier):
    out = []
    for f in families:
        out.extend(FAMILIES[f][0](tier))
    return out


def prog_cases(shard):
    return FAMILIES[shard["fam"]][1](shard)
