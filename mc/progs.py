"""E1 program space: typed grammar enumerators (DESIGN.md §3.1).

prog_shards(families, tier) -> list of shard descriptors
prog_cases(shard)           -> iterator of {"src": str, "fam": str}

Every family is a finite set, enumerated completely and deterministically, simplest first.
The function is always called `tfun` (a name that cannot collide with a global of
qlasskit/qlassfun.py into which the library exec's the source).
"""
import functools
import itertools

VARS = "abcdefgh"

# ----------------------------------------------------------------------------------------
# Family B: boolean expressions
# ----------------------------------------------------------------------------------------
BIN = ["and", "or", "^", "==", "!="]


@functools.lru_cache(maxsize=None)
def b_trees(size, ops=("not", "and", "or", "^", "==", "!=", "ite")):
    """All expression tree shapes with exactly `size` operator nodes; leaves are 'v'."""
    if size == 0:
        return ("v",)
    out = []
    if "not" in ops:
        for t in b_trees(size - 1, ops):
            out.append(("not", t))
    for op in BIN:
        if op not in ops:
            continue
        for i in range(size):
            for l in b_trees(i, ops):
                for r in b_trees(size - 1 - i, ops):
                    out.append((op, l, r))
    if "ite" in ops:
        for i in range(size):
            for j in range(size - i):
                k = size - 1 - i - j
                for c in b_trees(i, ops):
                    for t in b_trees(j, ops):
                        for e in b_trees(k, ops):
                            out.append(("ite", c, t, e))
    return tuple(out)


def n_leaves(t):
    if t == "v":
        return 1
    return sum(n_leaves(x) for x in t[1:])


def rgs(n, maxk):
    """Restricted growth strings of length n with at most maxk distinct values."""
    def rec(prefix, mx):
        if len(prefix) == n:
            yield tuple(prefix)
            return
        for v in range(min(mx + 1, maxk - 1) + 1):
            yield from rec(prefix + [v], max(mx, v))
    if n == 0:
        yield ()
        return
    yield from rec([0], 0)


def b_render(t, labels):
    """labels: list consumed left-to-right."""
    it = iter(labels)

    def r(t):
        if t == "v":
            return VARS[next(it)]
        if t[0] == "not":
            return "(not %s)" % r(t[1])
        if t[0] == "ite":
            c = r(t[1])
            a = r(t[2])
            b = r(t[3])
            return "(%s if %s else %s)" % (a, c, b)
        l = r(t[1])
        rr = r(t[2])
        return "(%s %s %s)" % (l, t[0], rr)

    # evaluation order of labels must be left-to-right in tree order (c, t, e for ite)
    return r(t)


def b_src(expr, nvars):
    args = ", ".join("%s: bool" % VARS[i] for i in range(nvars))
    return "def tfun(%s) -> bool:\n    return %s\n" % (args, expr)


def _b_full_labelings(nl, nvars):
    """All labelings of nl leaves over exactly-available nvars variables (not reduced)."""
    return itertools.product(range(nvars), repeat=nl)


def b_shape_templates():
    """Sign patterns of 3/4-literal conjunctions/disjunctions joined by or/and/^ and n-ary
    chains: the forms the optimizer's pattern rules key on."""
    out = []
    for k in (2, 3, 4):
        vs = VARS[:k]
        for inner, outer in (("and", "or"), ("or", "and"), ("and", "^")):
            for s1 in itertools.product((0, 1), repeat=k):
                for s2 in itertools.product((0, 1), repeat=k):
                    if s2 < s1:
                        continue
                    t1 = (" %s " % inner).join(("not " + v) if s else v for v, s in zip(vs, s1))
                    t2 = (" %s " % inner).join(("not " + v) if s else v for v, s in zip(vs, s2))
                    out.append((b"".decode() + "(%s) %s (%s)" % (t1, outer, t2), k))
    # n-ary chains with every sign pattern
    for k in (3, 4, 5):
        vs = VARS[:k]
        for op in ("or", "and", "^"):
            for s in itertools.product((0, 1), repeat=k):
                out.append(((" %s " % op).join(("(not %s)" % v) if x else v for v, x in zip(vs, s)), k))
    # nested n-ary under binary (the first mis-synthesised shape found by probing)
    for k in (4, 5):
        vs = VARS[:k]
        for o1, o2, o3 in itertools.product(("and", "or", "^"), repeat=3):
            inner = (" %s " % o1).join(vs[1:k - 1])
            out.append(("(%s %s (%s)) %s %s" % (vs[0], o2, inner, o3, vs[k - 1]), k))
    # wide n-ary operators (3..6 operands, positive and with one negated operand) alone and nested one or two levels under
    # binary operators: an n-ary Or/And/Xor reaches the synthesiser only in such positions
    for k in (3, 4, 5, 6):
        inner_vars = VARS[2:2 + k]
        for inner in ("or", "and", "^"):
            pats = [tuple([0] * k)] + [tuple(1 if j == i else 0 for j in range(k)) for i in (0, k - 1)]
            for s in pats:
                chain = (" %s " % inner).join(("(not %s)" % v) if x else v for v, x in zip(inner_vars, s))
                out.append((chain.replace(inner_vars[0], "a", 1) if False else chain, 2 + k))
                for o_mid in ("and", "or", "^"):
                    out.append(("b %s (%s)" % (o_mid, chain), 2 + k))
                    for o_out in ("or", "and", "^"):
                        out.append(("a %s (b %s (%s))" % (o_out, o_mid, chain), 2 + k))
    return out


def b_cases(shard):
    kind = shard["kind"]
    if kind == "trees":
        size, lo, hi, maxk = shard["size"], shard["lo"], shard["hi"], shard["maxk"]
        ops = tuple(shard.get("ops") or ("not", "and", "or", "^", "==", "!=", "ite"))
        trees = b_trees(size, ops)
        req = shard.get("require")
        for t in trees[lo:hi]:
            if req and not _has_op(t, req):
                continue
            nl = n_leaves(t)
            for lab in rgs(nl, maxk):
                nv = max(lab) + 1
                yield {"src": b_src(b_render(t, lab), nv), "fam": "B"}
    elif kind == "trees_full":
        size, lo, hi, nv = shard["size"], shard["lo"], shard["hi"], shard["nvars"]
        trees = b_trees(size)
        for t in trees[lo:hi]:
            nl = n_leaves(t)
            for lab in _b_full_labelings(nl, nv):
                yield {"src": b_src(b_render(t, lab), nv), "fam": "B"}
    elif kind == "templates":
        tl = b_shape_templates()
        for e, k in tl[shard["lo"]:shard["hi"]]:
            yield {"src": b_src(e, k), "fam": "B"}
    else:
        raise ValueError(kind)


def b_shards(tier):
    out = []
    # complete, unreduced labelings for the smallest trees (argument order matters to the library)
    for size, nv in ((0, 1), (1, 2), (1, 3), (2, 2), (2, 3)):
        n = len(b_trees(size))
        step = 25
        for lo in range(0, n, step):
            out.append({"fam": "B", "kind": "trees_full", "size": size, "lo": lo, "hi": min(n, lo + step), "nvars": nv})
    ntl = len(b_shape_templates())
    for lo in range(0, ntl, 60):
        out.append({"fam": "B", "kind": "templates", "lo": lo, "hi": min(ntl, lo + 60)})
    # reduced labelings (variables numbered by first occurrence)
    if tier == "quick":
        plans = [(3, None, 5, None, 12)]
    else:
        plans = [(3, None, 5, None, 12),
                 (4, ("not", "and", "or", "^"), 4, None, 40),
                 (4, ("and", "or", "^", "==", "!="), 3, ("==", "!="), 40)]
    for size, ops, maxk, require, step in plans:
        n = len(b_trees(size, ops) if ops else b_trees(size))
        for lo in range(0, n, step):
            d = {"fam": "B", "kind": "trees", "size": size, "lo": lo, "hi": min(n, lo + step), "maxk": maxk}
            if ops:
                d["ops"] = list(ops)
            if require:
                d["require"] = list(require)
            out.append(d)
    return out


def _has_op(t, ops):
    if t == "v":
        return False
    return t[0] in ops or any(_has_op(x, ops) for x in t[1:])


# ----------------------------------------------------------------------------------------
# Template machinery for the other families
# ----------------------------------------------------------------------------------------
def expand(template, opts):
    """All instantiations of `template` (str.format fields) over the product of the option lists."""
    keys = sorted(opts)
    for combo in itertools.product(*[opts[k] for k in keys]):
        yield template.format(**dict(zip(keys, combo)))


def bucket(s):
    for w in (2, 4, 6, 8, 12, 16):
        if s <= w:
            return w
    return 16


ARITH = ["+", "-", "*", "&", "|", "^"]
CMPS = ["==", "!=", "<", "<=", ">", ">="]
WPAIRS_Q = [(2, 2), (2, 4), (4, 2), (3, 3), (4, 4)]


def i1_depth1(wa, wb):
    """Depth-1 integer expressions over a, b and constants; yields (expr, kind) kind in {'int','bool'}."""
    consts = ["0", "1", "2", "3", "5", "6", str(2 ** max(wa, wb) - 1)]
    consts = list(dict.fromkeys(consts))
    leaves = ["a", "b"] + consts
    for op in ARITH:
        for x in leaves:
            for y in leaves:
                if x in consts and y in consts:
                    continue
                yield "%s %s %s" % (x, op, y), "int"
    for op in CMPS:
        for x in leaves:
            for y in leaves:
                if x in consts and y in consts:
                    continue
                yield "%s %s %s" % (x, op, y), "bool"
    for v in ("a", "b"):
        yield "~%s" % v, "int"
        for k in (0, 1, 2, 3):
            yield "%s << %d" % (v, k), "int"
            yield "%s >> %d" % (v, k), "int"
            yield "%s ** %d" % (v, k), "int"
        for m in (1, 2, 4, 8):
            yield "%s %% %d" % (v, m), "int"
        for i in range(4):
            yield "%s[%d]" % (v, i), "bool"
    yield "a", "int"
    yield "b", "int"


def i1_src(expr, wa, wb, rt):
    return "def tfun(a: Qint[%d], b: Qint[%d]) -> %s:\n    return %s\n" % (wa, wb, rt, expr)


def i1_rets(wa, wb):
    lo, hi = min(wa, wb), max(wa, wb)
    r = [lo, hi, bucket(hi + 2)]
    return ["Qint[%d]" % w for w in dict.fromkeys(r)]


D2_LEAVES = ["a", "b", "1", "3"]
D2_OPS = ["+", "-", "*", "&", "|", "^"]


def i1_depth2(leaves=D2_LEAVES):
    """(x op1 y) op2 z and x op2 (y op1 z); unary/shift wrappers of depth-1; comparisons on top."""
    for op1 in D2_OPS:
        for op2 in D2_OPS:
            for x in leaves:
                for y in leaves:
                    if x.isdigit() and y.isdigit():
                        continue
                    for z in leaves:
                        yield "(%s %s %s) %s %s" % (x, op1, y, op2, z), "int"
                        yield "%s %s (%s %s %s)" % (z, op2, x, op1, y), "int"
    for op1 in D2_OPS:
        for x in leaves:
            for y in leaves:
                if x.isdigit() and y.isdigit():
                    continue
                e = "(%s %s %s)" % (x, op1, y)
                yield "~%s" % e, "int"
                for k in (1, 2):
                    yield "%s << %d" % (e, k), "int"
                    yield "%s >> %d" % (e, k), "int"
                yield "%s %% 2" % e, "int"
                yield "%s %% 4" % e, "int"
                yield "%s ** 2" % e, "int"
                for c in CMPS:
                    for z in leaves:
                        yield "%s %s %s" % (e, c, z), "bool"
                        yield "%s %s %s" % (z, c, e), "bool"
    for c1 in CMPS:
        for c2 in ("==", "<", ">="):
            for bop in ("and", "or", "^", "=="):
                yield "(a %s b) %s (a %s 1)" % (c1, bop, c2), "bool"
                yield "(a %s 2) %s (b %s a)" % (c1, bop, c2), "bool"
    for c1 in CMPS:
        for x in ("a", "b", "1", "3"):
            for y in ("a", "b", "2"):
                yield "(%s if a %s b else %s)" % (x, c1, y), "int"
                yield "(%s if a %s 1 else %s) + 1" % (x, c1, y), "int"


def i1_shards(tier):
    out = []
    pairs = WPAIRS_Q if tier == "quick" else WPAIRS_Q + [(3, 2), (2, 3), (4, 3)]
    for wa, wb in pairs:
        out.append({"fam": "I1", "kind": "d1", "wa": wa, "wb": wb})
    d2pairs = [(2, 2)] if tier == "quick" else [(2, 2), (2, 4), (4, 2), (3, 3)]
    for wa, wb in d2pairs:
        n = sum(1 for _ in i1_depth2())
        step = 400
        for lo in range(0, n, step):
            out.append({"fam": "I1", "kind": "d2", "wa": wa, "wb": wb, "lo": lo, "hi": min(n, lo + step)})
    return out


def i1_cases(shard):
    wa, wb = shard["wa"], shard["wb"]
    if shard["kind"] == "d1":
        for e, kind in i1_depth1(wa, wb):
            rts = ["bool"] if kind == "bool" else i1_rets(wa, wb)
            for rt in rts:
                yield {"src": i1_src(e, wa, wb, rt), "fam": "I1"}
    else:
        rts_int = ["Qint[%d]" % max(wa, wb), "Qint[%d]" % bucket(2 * max(wa, wb))]
        for e, kind in itertools.islice(i1_depth2(), shard["lo"], shard["hi"]):
            rts = ["bool"] if kind == "bool" else rts_int
            for rt in rts:
                yield {"src": i1_src(e, wa, wb, rt), "fam": "I1"}


# ----------------------------------------------------------------------------------------
# Family S: statements
# ----------------------------------------------------------------------------------------
def s_templates(tier):
    """List of (template, options).  Templates use 4-space indentation; {..} are format fields."""
    E = ["a + b", "a - b", "a & b", "a ^ 1", "b + 1", "a * b", "a | 2", "~a", "b >> 1", "a << 1"]
    Es = ["a + b", "a - 1", "a ^ b", "b + 3"]
    L = ["a", "b", "1", "2", "3"]
    OP = ["+", "-", "&", "|", "^", "*"]
    OPs = ["+", "-", "^"]
    C = ["a > b", "a == b", "a != 1", "b < 2", "a[0]", "a >= 2", "not a[1]"]
    Cs = ["a > b", "a == 1", "b[0]"]
    SIG = ["a: Qint[2], b: Qint[2]", "a: Qint[2], b: Qint[4]", "a: Qint[4], b: Qint[2]"]
    SIG1 = ["a: Qint[2], b: Qint[2]", "a: Qint[2], b: Qint[4]"]
    RT = ["Qint[2]", "Qint[4]"]
    T = []
    # temp assignment + reuse
    T.append(("def tfun({sig}) -> {rt}:\n    c = {e}\n    return c\n", {"sig": SIG, "rt": RT, "e": E}))
    T.append(("def tfun({sig}) -> {rt}:\n    c = {e}\n    return c {op} {l}\n", {"sig": SIG1, "rt": ["Qint[4]"], "e": Es, "op": OP, "l": L}))
    T.append(("def tfun({sig}) -> {rt}:\n    c = {e}\n    d = c {op} c\n    return d {op2} c\n",
              {"sig": SIG1, "rt": ["Qint[4]"], "e": Es, "op": OPs, "op2": OPs}))
    # self re-assignment, aug-assign
    T.append(("def tfun({sig}) -> {rt}:\n    a = a {op} {l}\n    return a\n", {"sig": SIG, "rt": RT, "op": OP, "l": L}))
    T.append(("def tfun({sig}) -> {rt}:\n    a {op}= {l}\n    return a\n", {"sig": SIG, "rt": RT, "op": OP, "l": L}))
    T.append(("def tfun({sig}) -> {rt}:\n    a {op}= {l}\n    a {op2}= {l2}\n    return a {op3} b\n",
              {"sig": SIG1, "rt": ["Qint[4]"], "op": OPs, "l": ["b", "1"], "op2": OPs, "l2": ["a", "b", "3"], "op3": OPs}))
    T.append(("def tfun({sig}) -> {rt}:\n    c = {l}\n    c {op}= {l2}\n    return c\n",
              {"sig": SIG1, "rt": RT, "l": ["0", "1", "3", "a"], "op": OPs, "l2": ["a", "b", "1", "3"]}))
    # multi-target assignment / swap / unpacking
    T.append(("def tfun({sig}) -> {rt}:\n    a, b = b, a\n    return a {op} b\n", {"sig": SIG, "rt": RT, "op": OP + ["<", ">"][:0]}))
    T.append(("def tfun({sig}) -> bool:\n    a, b = b, a\n    return a {c} b\n", {"sig": SIG, "c": CMPS}))
    T.append(("def tfun({sig}) -> {rt}:\n    c, d = {x}, {y}\n    return c {op} d\n",
              {"sig": SIG1, "rt": ["Qint[4]"], "x": ["a", "b", "a + 1", "1"], "y": ["b", "a", "b - 1", "2"], "op": OPs}))
    T.append(("def tfun({sig}) -> {rt}:\n    t = ({x}, {y})\n    c, d = t\n    return c {op} d\n",
              {"sig": SIG1, "rt": ["Qint[4]"], "x": ["a", "b"], "y": ["b", "a"], "op": OPs}))
    T.append(("def tfun({sig}) -> {rt}:\n    t = ({x}, {y})\n    return t[{i}] {op} t[{j}]\n",
              {"sig": SIG1, "rt": ["Qint[4]"], "x": ["a", "b", "a + b"], "y": ["b", "a", "1"], "i": ["0", "1"], "j": ["0", "1"], "op": OPs}))
    T.append(("def tfun(a: bool, b: bool, c: bool) -> bool:\n    a, b, c = {x}, {y}, {z}\n    return {r}\n",
              {"x": ["b", "c", "not a"], "y": ["a", "c", "a and b"], "z": ["a", "b", "a ^ c"], "r": ["a and not b", "a ^ b ^ c", "(a or b) and c"]}))
    # if / else
    T.append(("def tfun({sig}) -> {rt}:\n    c = {init}\n    if {cond}:\n        c = {e1}\n    else:\n        c = {e2}\n    return c\n",
              {"sig": SIG1, "rt": ["Qint[4]"], "init": ["0", "a"], "cond": C, "e1": ["a", "a + 1", "3"], "e2": ["b", "b - 1", "0"]}))
    T.append(("def tfun({sig}) -> {rt}:\n    c = {init}\n    if {cond}:\n        c = {e1}\n    return c\n",
              {"sig": SIG, "rt": RT, "init": ["0", "1", "a", "b"], "cond": C, "e1": ["a", "b", "a + b", "c + 1", "3"]}))
    T.append(("def tfun({sig}) -> {rt}:\n    c = {init}\n    if {cond}:\n        c {op}= {l}\n    else:\n        c {op2}= {l2}\n    return c\n",
              {"sig": SIG1, "rt": ["Qint[4]"], "init": ["0", "a"], "cond": Cs, "op": OPs, "l": ["1", "b"], "op2": OPs, "l2": ["2", "a"]}))
    T.append(("def tfun({sig}) -> {rt}:\n    if {cond}:\n        c = {e1}\n    else:\n        c = {e2}\n    return c\n",
              {"sig": SIG1, "rt": ["Qint[4]"], "cond": C, "e1": ["a", "a + 1", "1"], "e2": ["b", "b ^ a", "2"]}))
    T.append(("def tfun({sig}) -> {rt}:\n    c = 0\n    d = 1\n    if {cond}:\n        c = {e1}\n        d = c {op} {l}\n    else:\n        d = {e2}\n    return c {op2} d\n",
              {"sig": SIG1, "rt": ["Qint[4]"], "cond": Cs, "e1": ["a", "b + 1"], "op": OPs, "l": ["1", "a"], "e2": ["b", "3"], "op2": OPs}))
    T.append(("def tfun({sig}) -> {rt}:\n    c = 0\n    if {cond}:\n        if {cond2}:\n            c = {e1}\n        else:\n            c = {e2}\n    else:\n        c = {e3}\n    return c\n",
              {"sig": SIG1, "rt": ["Qint[4]"], "cond": Cs, "cond2": ["a == b", "b > 1", "a[1]"], "e1": ["a", "1"], "e2": ["b", "a + b"], "e3": ["2", "a ^ b"]}))
    T.append(("def tfun({sig}) -> {rt}:\n    c = 0\n    if {cond}:\n        c = 1\n    elif {cond2}:\n        c = 2\n    else:\n        c = {e3}\n    return c\n",
              {"sig": SIG1, "rt": RT, "cond": C, "cond2": ["a == b", "b > 1", "a[1]"], "e3": ["3", "a"]}))
    T.append(("def tfun(a: bool, b: bool, c: bool) -> bool:\n    d = {init}\n    if {cond}:\n        d = {e1}\n    else:\n        d = {e2}\n    return {r}\n",
              {"init": ["False", "True", "c"], "cond": ["a", "not b", "a and b", "a ^ c"], "e1": ["not a", "b", "c or d"], "e2": ["True", "a and c", "not d"],
               "r": ["d", "d and a", "d ^ c"]}))
    # for loops
    T.append(("def tfun({sig}) -> {rt}:\n    for i in range({k}):\n        a {op}= {l}\n    return a\n",
              {"sig": SIG, "rt": RT, "k": ["0", "1", "2", "3", "4"], "op": OPs, "l": ["1", "i", "b", "a"]}))
    T.append(("def tfun({sig}) -> {rt}:\n    c = {init}\n    for i in range({k}):\n        c = c {op} {l}\n    return c\n",
              {"sig": SIG1, "rt": RT, "init": ["0", "1", "a"], "k": ["1", "2", "3"], "op": ["+", "-", "&", "|", "^"], "l": ["1", "i", "b", "a"]}))
    T.append(("def tfun(a: Qint[2], b: Qint[2]) -> {rt}:\n    c = {init}\n    for i in range({k}):\n        c = c * {l}\n    return c\n",
              {"rt": ["Qint[4]"], "init": ["1", "a"], "k": ["1", "2"], "l": ["2", "3", "i", "b"]}))
    T.append(("def tfun({sig}) -> {rt}:\n    c = 0\n    for i in range({k}):\n        for j in range({k2}):\n            c {op}= {l}\n    return c\n",
              {"sig": SIG1, "rt": ["Qint[4]"], "k": ["1", "2"], "k2": ["1", "2"], "op": OPs, "l": ["1", "i", "j", "a", "i + j"]}))
    T.append(("def tfun({sig}) -> {rt}:\n    c = 0\n    for i in range({lo}, {hi}):\n        c += {l}\n    return c\n",
              {"sig": SIG1, "rt": ["Qint[4]"], "lo": ["0", "1", "2"], "hi": ["2", "3", "4"], "l": ["i", "1", "a"]}))
    T.append(("def tfun({sig}) -> {rt}:\n    c = 0\n    for i in range({k}):\n        if {cond}:\n            c += {l}\n    return c\n",
              {"sig": SIG1, "rt": ["Qint[4]"], "k": ["1", "2", "3"], "cond": ["a > i", "a[i]", "b == i", "a > b"], "l": ["1", "i", "a"]}))
    T.append(("def tfun({sig}) -> {rt}:\n    c = 0\n    for x in [{l1}, {l2}, {l3}]:\n        c {op}= x\n    return c\n",
              {"sig": SIG1, "rt": ["Qint[4]"], "l1": ["1", "a"], "l2": ["2", "b"], "l3": ["3", "a"], "op": OPs}))
    T.append(("def tfun({sig}) -> {rt}:\n    l = [{l1}, {l2}]\n    c = {init}\n    for x in l:\n        c {op}= x\n    return c\n",
              {"sig": SIG1, "rt": ["Qint[4]"], "l1": ["1", "a", "a + b"], "l2": ["3", "b"], "init": ["0", "a"], "op": OPs}))
    T.append(("def tfun(a: bool, b: bool, c: bool) -> bool:\n    d = {init}\n    for i in range({k}):\n        d = {e}\n    return d\n",
              {"init": ["False", "True", "a"], "k": ["0", "1", "2", "3", "5"], "e": ["not d", "d ^ b", "d and c", "(d or a) ^ c", "a if d else b"]}))
    T.append(("def tfun({sig}) -> {rt}:\n    c = 0\n    for i in range(3):\n        if i {cmp} {k}:\n            c += {l}\n    return c\n",
              {"sig": SIG1, "rt": ["Qint[4]"], "cmp": CMPS, "k": ["0", "1", "2"], "l": ["1", "a"]}))
    T.append(("def tfun({sig}) -> {rt}:\n    c = b\n    for x in [0, 2, 3]:\n        c = (c + 1) if x {cmp} 2 else (c ^ a)\n    return c\n",
              {"sig": SIG1, "rt": ["Qint[4]"], "cmp": CMPS}))
    # list-constant lookups
    LST = ["[1, 3, 2, 0]", "[0, 1, 2, 3]", "[3, 3, 0, 1]", "[2, 0, 1, 5]"]
    T.append(("def tfun({sig}) -> {rt}:\n    c = {lst}\n    return c[a]\n", {"sig": ["a: Qint[2]", "a: Qint[2], b: Qint[2]"], "rt": RT, "lst": LST}))
    T.append(("def tfun(a: Qint[2], b: Qint[2]) -> {rt}:\n    c = {lst}\n    return c[a] {op} c[b]\n", {"rt": ["Qint[4]"], "lst": LST, "op": OPs + ["=="][:0]}))
    T.append(("def tfun(a: Qint[2], b: Qint[2]) -> bool:\n    c = {lst}\n    return c[a] {cmp} {l}\n", {"lst": LST, "cmp": CMPS, "l": ["b", "1", "c[b]"]}))
    T.append(("def tfun(a: Qint[2], b: Qint[2]) -> {rt}:\n    c = {lst}\n    d = 0\n    for i in range({k}):\n        d += c[i]\n    return d {op} a\n",
              {"rt": ["Qint[4]"], "lst": LST, "k": ["1", "2", "4"], "op": OPs}))
    T.append(("def tfun(a: Qint[2], b: Qint[2]) -> {rt}:\n    c = {lst}\n    i = {init}\n    if {cond}:\n        i = {e}\n    return c[i]\n",
              {"rt": ["Qint[4]"], "lst": LST[:2], "init": ["0", "1", "a"], "cond": ["a > b", "a == 1"], "e": ["b", "2", "a"]}))
    T.append(("def tfun(a: Qint[2], b: Qint[2]) -> {rt}:\n    c = {lst}\n    i = {init}\n    i = {e}\n    return c[i]\n",
              {"rt": ["Qint[4]"], "lst": LST[:2], "init": ["0", "1"], "e": ["b", "a", "i + 1", "a ^ b"]}))
    T.append(("def tfun(a: Qint[2]) -> bool:\n    c = [{b0}, {b1}, {b2}, {b3}]\n    return c[a]\n",
              {"b0": ["True", "False"], "b1": ["True", "False"], "b2": ["True", "False"], "b3": ["True", "False"]}))
    T.append(("def tfun(a: Qint[2], b: Qint[2]) -> {rt}:\n    c = [[1, 2], [3, 0]]\n    return c[{i}][{j}] {op} {l}\n",
              {"rt": ["Qint[4]"], "i": ["0", "1"], "j": ["0", "1"], "op": OPs, "l": ["a", "1"]}))
    T.append(("def tfun(a: bool, b: bool) -> {rt}:\n    c = [[1, 2], [3, 0]]\n    i = {ei}\n    j = {ej}\n    return c[i][j]\n",
              {"rt": ["Qint[2]", "Qint[4]"], "ei": ["0", "1"], "ej": ["0", "1"]}))
    T.append(("def tfun(a: Qint[2], b: Qint[2]) -> {rt}:\n    c = [[1, 2, 3], [3, 0, 1]]\n    d = a\n    for x in c[{i}]:\n        d {op}= x\n    return d + len(c[{j}]) + len(c)\n",
              {"rt": ["Qint[4]"], "i": ["0", "1"], "j": ["0", "1"], "op": OPs}))
    # print ignored, expression statements
    T.append(("def tfun({sig}) -> {rt}:\n    print(a)\n    c = {e}\n    print(c, b)\n    return c\n", {"sig": SIG1, "rt": ["Qint[4]"], "e": Es}))
    if tier == "thorough":
        E2 = E + ["a + b + 1", "(a ^ b) + a", "a * 3", "b - a"]
        T.append(("def tfun({sig}) -> {rt}:\n    c = {e}\n    d = {e2}\n    return c {op} d\n", {"sig": SIG, "rt": ["Qint[4]"], "e": E2, "e2": E2, "op": OP}))
        T.append(("def tfun({sig}) -> bool:\n    c = {e}\n    d = {e2}\n    return c {cmp} d\n", {"sig": SIG1, "e": E2, "e2": E2, "cmp": CMPS}))
        T.append(("def tfun({sig}) -> {rt}:\n    c = {init}\n    if {cond}:\n        c = {e1}\n    else:\n        c = {e2}\n    return c {op} {l}\n",
                  {"sig": SIG, "rt": ["Qint[4]"], "init": ["0", "a"], "cond": C, "e1": E2[:8], "e2": E2[:8], "op": OPs, "l": ["1", "a"]}))
        T.append(("def tfun({sig}) -> {rt}:\n    c = {init}\n    for i in range({k}):\n        c = {e}\n    return c\n",
                  {"sig": SIG, "rt": RT, "init": ["0", "1", "a", "b"], "k": ["1", "2", "3", "4"],
                   "e": ["c + a", "c ^ (a + i)", "(c + b) & 3", "c * 2 + i", "a if c > b else c + 1", "c - i", "~c", "c + c"]}))
    return T


def _tmpl_cases(templates, shard):
    """Instantiations lo..hi of template ti, skipping sources already produced by an earlier template
    or an earlier instantiation (so every program is a distinct state)."""
    ti = shard["ti"]
    t, o = templates[ti]
    seen = set()
    for tj in range(ti):
        seen.update(expand(*templates[tj])) if _overlap(templates[tj][0], t) else None
    for i, src in enumerate(expand(t, o)):
        if i >= shard["hi"]:
            break
        if src in seen:
            continue
        seen.add(src)
        if i >= shard["lo"]:
            yield src


def _overlap(t1, t2):
    # templates can only produce equal programs if their first lines have the same shape
    return t1.split("\n")[0].split("(")[0] == t2.split("\n")[0].split("(")[0] and t1.count("\n") == t2.count("\n")


def _tmpl_shards(fam, templates, step):
    out = []
    for ti, (t, o) in enumerate(templates):
        n = 1
        for v in o.values():
            n *= len(v)
        for lo in range(0, n, step):
            out.append({"fam": fam, "ti": ti, "lo": lo, "hi": min(n, lo + step)})
    return out


def s_shards(tier):
    out = _tmpl_shards("S", s_templates(tier), 40)
    for d in out:
        d["tier"] = tier
    return out


def s_cases(shard):
    for src in _tmpl_cases(s_templates(shard["tier"]), shard):
        yield {"src": src, "fam": "S"}


# ----------------------------------------------------------------------------------------
# Family T: types and builtins
# ----------------------------------------------------------------------------------------
def t_templates(tier):
    T = []
    OPs = ["+", "-", "^"]
    # tuple / list / matrix arguments
    T.append(("def tfun(a: Tuple[{t0}, {t1}]) -> {rt}:\n    return {e}\n",
              {"t0": ["Qint[2]"], "t1": ["Qint[2]", "Qint[4]"], "rt": ["Qint[4]"], "e": ["a[0] + a[1]", "a[1] - a[0]", "a[0]", "a[1]", "a[0] * a[1]", "a[1] & a[0]"]}))
    T.append(("def tfun(a: Tuple[{t0}, {t1}]) -> bool:\n    return {e}\n",
              {"t0": ["Qint[2]"], "t1": ["Qint[2]", "Qint[4]"], "e": ["a[0] > a[1]", "a[0] == a[1]", "a[1] <= a[0]", "a[0][0] and a[1][1]", "a[0] != 1"]}))
    T.append(("def tfun(a: Tuple[bool, Qint[2]], b: Tuple[Qint[2], bool]) -> {rt}:\n    return {e}\n",
              {"rt": ["Qint[2]", "Qint[4]"], "e": ["a[1] + b[0]", "(a[1] if a[0] else b[0])", "(a[1] if b[1] else a[1] + 1)", "b[0] - a[1]"]}))
    T.append(("def tfun(a: Tuple[bool, Qint[2]], b: Tuple[Qint[2], bool]) -> bool:\n    return {e}\n",
              {"e": ["a[0] and b[1]", "a[0] ^ b[1]", "a[1] == b[0]", "a[1] > b[0] or a[0]", "a[1][0] == b[1]"]}))
    T.append(("def tfun(a: Tuple[Tuple[bool, Qint[2]], bool]) -> {rt}:\n    return {e}\n",
              {"rt": ["Qint[2]"], "e": ["a[0][1]", "a[0][1] + 1", "(a[0][1] if a[1] else 0)", "(a[0][1] if a[0][0] else 3)"]}))
    T.append(("def tfun(a: Tuple[Tuple[bool, Qint[2]], bool]) -> bool:\n    return {e}\n",
              {"e": ["a[0][0]", "a[1] and a[0][0]", "a[0][1] == 2", "a[0][1][1] ^ a[1]"]}))
    T.append(("def tfun(a: Qlist[Qint[2], {n}]) -> {rt}:\n    return {e}\n",
              {"n": ["2", "3"], "rt": ["Qint[2]", "Qint[4]"], "e": ["a[0] + a[1]", "sum(a)", "max(a)", "min(a)", "a[0]", "a[1] - a[0]", "max(a) - min(a)", "a[len(a) - 1]"]}))
    T.append(("def tfun(a: Qlist[Qint[2], {n}]) -> bool:\n    return {e}\n",
              {"n": ["2", "3"], "e": ["a[0] == a[1]", "a[0] > a[1]", "len(a) == 2", "max(a) == a[0]", "sum(a) == 3", "min(a) < 2"]}))
    T.append(("def tfun(a: Qlist[bool, {n}]) -> bool:\n    return {e}\n",
              {"n": ["2", "3", "4"], "e": ["all(a)", "any(a)", "a[0] and a[1]", "a[0] ^ a[1]", "not a[0]", "all(a) or not any(a)", "a[len(a) - 1]", "any(a) and not all(a)"]}))
    T.append(("def tfun(a: Qlist[bool, {n}]) -> bool:\n    c = {init}\n    for x in a:\n        c = {e}\n    return c\n",
              {"n": ["2", "3"], "init": ["True", "False"], "e": ["c and x", "c or x", "c ^ x", "not c if x else c"]}))
    T.append(("def tfun(a: Qlist[Qint[2], {n}]) -> {rt}:\n    c = {init}\n    for x in a:\n        c {op}= x\n    return c\n",
              {"n": ["2", "3"], "rt": ["Qint[2]", "Qint[4]"], "init": ["0", "1"], "op": OPs}))
    T.append(("def tfun(a: Qlist[Qint[2], {n}]) -> {rt}:\n    c = 0\n    for i in range(len(a)):\n        c {op}= a[i]\n    return c\n",
              {"n": ["2", "3"], "rt": ["Qint[4]"], "op": OPs}))
    T.append(("def tfun(a: Qlist[Qint[2], 2], i: Qint[2]) -> {rt}:\n    return a[i]\n", {"rt": ["Qint[2]", "Qint[4]"]}))
    T.append(("def tfun(a: Qlist[bool, {n}], i: Qint[2]) -> bool:\n    return a[i]\n", {"n": ["2", "3", "4"]}))
    T.append(("def tfun(a: Qmatrix[bool, 2, 2]) -> bool:\n    return {e}\n",
              {"e": ["a[0][0]", "a[0][1]", "a[1][0]", "a[1][1]", "a[0][0] and a[1][1]", "a[0][1] ^ a[1][0]", "len(a) == 2", "len(a[0]) == 2"]}))
    T.append(("def tfun(a: Qmatrix[bool, 2, 3]) -> bool:\n    return {e}\n",
              {"e": ["a[0][2]", "a[1][0]", "a[1][2] and a[0][0]", "len(a) == 2", "len(a[0]) == 3", "len(a[1]) == 2"]}))
    T.append(("def tfun(a: Qmatrix[Qint[2], 2, 2]) -> {rt}:\n    return {e}\n",
              {"rt": ["Qint[2]", "Qint[4]"], "e": ["a[0][0]", "a[1][0] + a[0][1]", "a[1][1] - a[0][0]", "a[0][1]", "a[1][0]"]}))
    T.append(("def tfun(a: Qmatrix[bool, 2, 2], i: bool, j: bool) -> bool:\n    x = {ei}\n    y = {ej}\n    return {e}\n",
              {"ei": ["1 if i else 0", "0 if i else 1"], "ej": ["1 if j else 0", "0"], "e": ["a[x][y]", "a[y][x]"]}))
    T.append(("def tfun(a: Qmatrix[bool, 2, 2]) -> bool:\n    c = {init}\n    for r in a:\n        for x in r:\n            c = {e}\n    return c\n",
              {"init": ["True", "False"], "e": ["c and x", "c ^ x", "c or x"]}))
    # results of every shape
    T.append(("def tfun(a: Qint[2], b: bool) -> Tuple[{t0}, {t1}]:\n    return ({e0}, {e1})\n",
              {"t0": ["bool", "Qint[2]"], "t1": ["bool", "Qint[2]"], "e0": ["a", "b", "a + 1", "not b", "a > 1"], "e1": ["a", "b", "a ^ 3", "b and a[0]"]}))
    T.append(("def tfun(a: Qint[2], b: bool) -> Tuple[Tuple[bool, Qint[2]], bool]:\n    return (({e0}, {e1}), {e2})\n",
              {"e0": ["b", "a[0]", "not b"], "e1": ["a", "a + 1", "3"], "e2": ["b", "a == 2", "True"]}))
    T.append(("def tfun(a: Qint[2], b: Qint[2]) -> Qlist[Qint[2], {n}]:\n    return [{es}]\n",
              {"n": ["2"], "es": ["a, b", "b, a", "a, a", "a + b, a - b", "1, a", "a + 1, a + 1"]}))
    T.append(("def tfun(a: Qint[2], b: Qint[2]) -> Qlist[Qint[2], 3]:\n    return [{es}]\n", {"es": ["a, b, a", "b, b, b", "a ^ b, 3, a"]}))
    T.append(("def tfun(a: Tuple[{t0}, {t1}]) -> Tuple[{t0}, {t1}]:\n    return a\n", {"t0": ["bool", "Qint[2]"], "t1": ["bool", "Qint[2]"]}))
    T.append(("def tfun(a: Tuple[{t0}, {t1}]) -> Tuple[{t1}, {t0}]:\n    return (a[1], a[0])\n", {"t0": ["bool", "Qint[2]"], "t1": ["bool", "Qint[2]"]}))
    T.append(("def tfun(a: Tuple[{t0}, {t1}]) -> Tuple[{t0}, {t1}]:\n    b = a\n    return b\n", {"t0": ["bool", "Qint[2]"], "t1": ["bool", "Qint[2]"]}))
    T.append(("def tfun({sig}) -> {rt}:\n    a = {f}(a, {y})\n    return a\n",
              {"sig": ["a: Qint[2], b: Qint[2]", "a: Qint[4], b: Qint[2]"], "rt": ["Qint[4]"], "f": ["max", "min"], "y": ["b", "2", "a + 1"]}))
    T.append(("def tfun({sig}) -> {rt}:\n    c = a\n    for i in range(4):\n        c = c + (i {bop} {k})\n    return c\n",
              {"sig": ["a: Qint[4], b: Qint[2]"], "rt": ["Qint[4]"], "bop": ["^", "|", "&", "+", "-", "*"], "k": ["1", "2", "3"]}))
    T.append(("def tfun({sig}) -> {rt}:\n    return a + ({x} {bop} {k})\n",
              {"sig": ["a: Qint[4], b: Qint[2]"], "rt": ["Qint[4]"], "x": ["6", "5"], "bop": ["^", "|", "&"], "k": ["3", "4"]}))
    T.append(("def tfun(a: Tuple[{t0}, {t1}], c: bool) -> Tuple[{t0}, {t1}]:\n    b = ({x}, {y})\n    return {r}\n",
              {"t0": ["bool"], "t1": ["bool"], "x": ["a[1]", "c", "not a[0]"], "y": ["a[0]", "c and a[1]"], "r": ["b", "(b if c else a)", "(b[1], b[0])"]}))
    T.append(("def tfun(a: Tuple[{t0}, {t1}], c: bool) -> {t1}:\n    b = a\n    return b[1]\n", {"t0": ["bool", "Qint[2]"], "t1": ["bool", "Qint[2]"]}))
    T.append(("def tfun(a: Tuple[Tuple[bool, Qint[2]], Qint[2]]) -> Qint[2]:\n    b = a\n    c = b[0]\n    return c[1] + b[1]\n", {}))
    T.append(("def tfun(a: Tuple[{t0}, {t1}], c: bool) -> Tuple[Tuple[{t0}, {t1}], bool]:\n    t = a\n    return ({x}, c)\n", {"t0": ["bool", "Qint[2]"], "t1": ["bool", "Qint[2]"], "x": ["t", "a"]}))
    T.append(("def tfun(a: Tuple[Tuple[bool, Qint[2]], bool]) -> Tuple[bool, Tuple[bool, Qint[2]]]:\n    return (a[1], a[0])\n", {}))
    T.append(("def tfun(a: Qlist[bool, 2]) -> Qlist[bool, 2]:\n    {body}\n", {"body": ["return a", "return [a[1], a[0]]", "return [a[0], a[0]]", "b = a\n    return b", "return [not a[0], a[0] and a[1]]"]}))
    T.append(("def tfun(a: Qmatrix[bool, 2, 2]) -> Qmatrix[bool, 2, 2]:\n    {body}\n",
              {"body": ["return a", "return [[a[0][0], a[1][0]], [a[0][1], a[1][1]]]", "return [[a[1][1], a[1][0]], [a[0][1], a[0][0]]]"]}))
    # tuple comparisons
    T.append(("def tfun(a: Tuple[{t0}, {t1}], b: Tuple[{t0}, {t1}]) -> bool:\n    return a {c} b\n",
              {"t0": ["bool", "Qint[2]"], "t1": ["bool", "Qint[2]"], "c": ["==", "!="]}))
    T.append(("def tfun(a: Tuple[bool, bool], c: bool) -> bool:\n    return a {c} ({x}, {y})\n", {"c": ["==", "!="], "x": ["c", "True", "a[1]"], "y": ["c", "False", "a[0]"]}))
    # min / max / sum / len var-arg and tuple forms
    T.append(("def tfun(a: Qint[{wa}], b: Qint[{wb}]) -> {rt}:\n    return {f}({args})\n",
              {"wa": ["2"], "wb": ["2", "4"], "rt": ["Qint[4]"], "f": ["max", "min"], "args": ["a, b", "b, a", "a, b, 1", "a, 2", "3, b, a", "a, a", "(a, b)", "[b, a, 2]"]}))
    T.append(("def tfun(a: Qint[{wa}], b: Qint[{wb}]) -> {rt}:\n    return {e}\n",
              {"wa": ["2"], "wb": ["2", "4"], "rt": ["Qint[4]"], "e": ["sum([a, b])", "sum((a, b, 1))", "sum([a, a, a])", "max(a, b) - min(a, b)", "max(a, b) + 1", "len([a, b]) + a", "len((a, b, a))",
                                                                      "min(a + 1, b)", "max(a & b, a ^ b)"]}))
    T.append(("def tfun(a: Qint[2], b: Qint[2]) -> bool:\n    return {e}\n",
              {"e": ["max(a, b) == a", "min(a, b) == a", "max(a, b) >= min(a, b)", "all([a > 1, b > 1])", "any([a == 0, b == 0])", "all([a[0], b[1], a[1]])", "any([a[0], b[0]]) and not all([a[0], b[0]])",
                     "sum([a, b]) > 3", "len([a, b]) == 2"]}))
    # Qchar
    T.append(("def tfun(a: Qchar) -> bool:\n    return {e}\n", {"e": ["a == 'a'", "a != 'z'", "a == 'a' or a == 'b'", "not (a == '0')"]}))
    T.append(("def tfun(a: Qchar) -> Qchar:\n    return {e}\n", {"e": ["a", "'c'", "('x' if a == 'y' else a)", "('a' if a == 'b' else 'b')", "chr(ord(a))"]}))
    T.append(("def tfun(a: Qint[2]) -> Qchar:\n    return {e}\n", {"e": ["'a'", "('a' if a == 1 else 'b')", "['a', 'b', 'c', 'd'][a]"]}))
    T.append(("def tfun(a: Qchar, b: Qchar) -> bool:\n    return {e}\n", {"e": ["a == b", "a != b", "(a == 'k') and (b == 'k')"]}))
    # Qint bit access, typed constants, wider widths
    T.append(("def tfun(a: Qint[{w}]) -> bool:\n    return {e}\n",
              {"w": ["2", "3", "4", "5", "6", "8"], "e": ["a[0]", "a[1]", "a[0] ^ a[1]", "a == 1", "a > 2", "a < 3", "a != 3", "a >= 1", "a <= 2", "a == 5", "a > 5"]}))
    T.append(("def tfun(a: Qint[{w}]) -> Qint[{w}]:\n    return {e}\n",
              {"w": ["2", "3", "4"], "e": ["a", "a + 1", "a - 1", "a + a", "a ^ 3", "~a", "a >> 1", "a << 1", "a & 5", "a | 1", "a % 2", "a % 4", "a + 3", "3 - a", "a * 2", "a * 3", "a * 4",
                                            "a * 5", "a * 6", "a * 7", "a * 8", "a * 10", "a * 12", "a * a", "a ** 2", "0 * a", "a * 0", "a * 1"]}))
    T.append(("def tfun(a: Qint[{w}]) -> Qint[{w}]:\n    return {e}\n",
              {"w": ["5", "6", "8"], "e": ["a", "a + 1", "a - 1", "a + a", "a ^ 3", "~a", "a >> 1", "a << 1", "a & 5", "a | 1", "a % 2", "a % 4", "a + 3", "3 - a", "a * 2", "a * 4", "a * 6", "a * 1"]}))
    T.append(("def tfun(a: Qint[{w}]) -> Qint[{w2}]:\n    return {e}\n",
              {"w": ["2", "3", "4"], "w2": ["4", "6", "8"], "e": ["a * 2", "a * 3", "a * 4", "a * 5", "a * 6", "a * 7", "a * 10", "a * 12", "a * 14", "a * a", "a ** 2", "a ** 3", "a * a + a", "6 * a", "a * 6 + 1"]}))
    T.append(("def tfun(a: Qint[{w}]) -> Qint[{w}]:\n    c = Qint{w}({v})\n    return a {op} c\n", {"w": ["2", "4"], "v": ["0", "1", "3"], "op": ["+", "-", "^", "&"]}))
    T.append(("def tfun(a: Qint[{w}]) -> bool:\n    s = Qint{w}({v})\n    return {e}\n", {"w": ["2", "4"], "v": ["0", "1", "2", "3"], "e": ["a == s", "(a[0] & s[0]) ^ (a[1] & s[1])", "a > s"]}))
    # Qfixed
    T.append(("def tfun(a: Qfixed[{i}, {f}], b: Qfixed[{i}, {f}]) -> bool:\n    return a {c} b\n", {"i": ["1", "2"], "f": ["2"], "c": CMPS}))
    T.append(("def tfun(a: Qfixed[{i}, {f}], b: Qfixed[{i}, {f}]) -> Qfixed[{i}, {f}]:\n    return {e}\n",
              {"i": ["1", "2"], "f": ["2"], "e": ["a", "a + b", "a - b", "b - a", "a + a", "(a if a > b else b)"]}))
    T.append(("def tfun(a: Qfixed[{i}, {f}]) -> bool:\n    return a {c} {k}\n", {"i": ["1", "2"], "f": ["2", "3"], "c": CMPS, "k": ["0.5", "1.0", "0.25", "1.5", "0.75"]}))
    T.append(("def tfun(a: Qfixed[{i}, {f}]) -> Qfixed[{i}, {f}]:\n    return {e}\n",
              {"i": ["1", "2"], "f": ["2", "3"], "e": ["a + 0.5", "a - 0.25", "a + 1.0", "a * 2", "a * 3", "2 * a", "a * 0", "a + 0.75", "0.5 + a", "1.5 - a"]}))
    T.append(("def tfun(a: Qfixed[2, 2]) -> Qint[2]:\n    return int(a)\n", {}))
    T.append(("def tfun(a: Qfixed[{i}, {f}]) -> Qfixed[{i}, {f}]:\n    return float(a)\n", {"i": ["1", "2"], "f": ["2"]}))
    T.append(("def tfun(a: Qint[2]) -> Qfixed[2, {f}]:\n    return float(a)\n", {"f": ["2", "3"]}))
    T.append(("def tfun(a: Qint[2]) -> Qint[2]:\n    return int(a)\n", {}))
    # a tuple / list variable reassigned with a literal that reads its own earlier elements (a parallel update)
    T.append(("def tfun(a: Tuple[bool, bool]) -> Tuple[bool, bool]:\n    a = (a[1], a[0])\n    return a\n", {}))
    T.append(("def tfun(a: Tuple[bool, bool], b: bool) -> bool:\n    a = ({x}, {y})\n    return a[0] and not a[1]\n",
              {"x": ["a[1]", "a[1] ^ b", "not a[0]"], "y": ["a[0]", "a[0] or b", "a[1]"]}))
    T.append(("def tfun(a: Qlist[bool, 3]) -> Qlist[bool, 3]:\n    a = [a[2], a[0], a[1]]\n    return a\n", {}))
    T.append(("def tfun(a: Tuple[Qint[2], bool]) -> Tuple[Qint[2], bool]:\n    a = (a[0] + 1, a[0] == 3)\n    return a\n", {}))
    T.append(("def tfun(a: Tuple[Qint[2], Qint[2]]) -> Qint[2]:\n    a = (a[1], a[0] + a[1])\n    return a[0] ^ a[1]\n", {}))
    T.append(("def tfun(a: Tuple[Qint[2], Qint[2]]) -> Tuple[Qint[2], Qint[2]]:\n    for i in range(2):\n        a = (a[1], a[0] + a[1])\n    return a\n", {}))
    # locals whose names merely contain "_ret" (how a symbol is treated must depend on its role, not on a substring of its name)
    for v in ("no_retry", "is_ret", "x_ret"):
        T.append(("def tfun(a: bool, b: bool, c: bool, d: bool) -> bool:\n    %s = {e}\n    return {r}\n" % v,
                  {"e": ["a and b and c", "a ^ b", "a or b or c"], "r": ["not (%s and d)" % v, "%s or d" % v, "(%s ^ d) and a" % v]}))
    T.append(("def tfun(a: Qint[2], b: Qint[2]) -> Qint[2]:\n    my_ret = a + b\n    return my_ret ^ a\n", {}))
    # wide integer parts (3 and 4 bits): every value is a row, so every integer part >= 6 is encoded and decoded
    T.append(("def tfun(a: Qfixed[{i}]) -> Qfixed[{i}]:\n    return {e}\n", {"i": ["3, 3", "4, 4"], "e": ["a", "a + 0.5", "a + a"]}))
    T.append(("def tfun(a: Qfixed[{i}]) -> bool:\n    return a {c} {k}\n", {"i": ["3, 3", "4, 4"], "c": [">", "==", "<="], "k": ["0.5", "5.5", "6.5", "7.0"]}))
    T.append(("def tfun(a: Qfixed[4, 4]) -> bool:\n    return a {c} {k}\n", {"c": [">", "=="], "k": ["8.5", "12.25"]}))
    T.append(("def tfun(a: Qfixed[3, 3], b: bool) -> Tuple[Qfixed[3, 3], bool]:\n    return (a, not b)\n", {}))
    return T


def t_shards(tier):
    out = _tmpl_shards("T", t_templates(tier), 30)
    for d in out:
        d["tier"] = tier
    return out


def t_cases(shard):
    for src in _tmpl_cases(t_templates(shard["tier"]), shard):
        yield {"src": src, "fam": "T"}


# ----------------------------------------------------------------------------------------
# Family R: constructs outside the documented subset whose Python meaning is well defined
# ----------------------------------------------------------------------------------------
def r_templates(tier):
    T = []
    SIG = ["a: Qint[2], b: Qint[2]", "a: Qint[4], b: Qint[2]"]
    RT = ["Qint[2]", "Qint[4]"]
    T.append(("def tfun({sig}) -> {rt}:\n    return {e}\n",
              {"sig": SIG, "rt": RT, "e": ["a % 3", "a % 5", "a % 6", "a % 7", "a % b", "a // 2", "a // b", "a // 3", "-a", "abs(a)", "a ** b", "a << b", "a >> b",
                                           "3 % a", "a % 3 + 1", "(a + b) % 3", "+a", "a - -1", "a + (-1)", "a * -1", "a @ b", "a if a else b", "a and b", "a or b"]}))
    T.append(("def tfun({sig}) -> bool:\n    return {e}\n",
              {"sig": SIG, "e": ["0 < a < 3", "a < b < 3", "a == b == 1", "a in [1, 2]", "a not in [0]", "a is b", "a is not b", "not a", "a > 1 > b", "bool(a)", "a == True", "a != False",
                                 "(lambda x: x > 1)(a)", "a[4]", "a[-1]", "a[0:1]", "a[b]", "a[5] or b[0]", "a and True", "a.real > 1", "a > 1.5", "a == 'a'"]}))
    T.append(("def tfun({sig}) -> {rt}:\n    {body}\n",
              {"sig": SIG, "rt": RT, "body": [
                  "while a > 0:\n        a = a - 1\n    return a",
                  "if a > b:\n        return a\n    return b",
                  "if a > b:\n        return a\n    else:\n        return b",
                  "c = [1, 2, 3]\n    return c[1:2][0]",
                  "c = [1, 2, 3, 0]\n    return c[-1] + a",
                  "c = [1, 2]\n    return c[a]",
                  "c = [1, 2, 3, 0, 1]\n    return c[a + b]",
                  "for i in range(a):\n        b += 1\n    return b",
                  "c = 0\n    for i in range(3):\n        c += i\n        if i == 1:\n            break\n    return c + a",
                  "c = 0\n    for i in range(3):\n        if i == 1:\n            continue\n        c += i\n    return c + a",
                  "c = a\n    c += True\n    return c",
                  "c = a + True\n    return c",
                  "c = {1: 2}\n    return c[1] + a",
                  "c = a\n    del c\n    return a",
                  "global zz\n    return a",
                  "assert a > 0\n    return a",
                  "pass\n    return a",
                  "c: Qint[2] = 1\n    return a + c",
                  "c = unknown_fun(a)\n    return c",
                  "c: Qint[3] = a\n    return c",
                  "try:\n        c = a\n    except Exception:\n        c = b\n    return c",
                  "with a:\n        pass\n    return a",
                  "a, b = b\n    return a",
                  "a = b = 1\n    return a + b",
                  "c = (a, b)\n    c[0] = b\n    return c[0]",
                  "return a if b else a",
                  "x = [a, b]\n    x[0] = 1\n    return x[0]",
                  "return max(a)", "return min()", "return sum(a, b)", "return len(a)", "return sum([a, True])", "return abs(a - b)",
                  "return divmod(a, b)[0]", "return pow(a, 2)", "return round(a)", "return int(a > b)", "return (a > b) + 1", "return a + (a > b)",
              ]}))
    T.append(("def tfun(a: bool, b: bool) -> bool:\n    return {e}\n",
              {"e": ["a < b", "a <= b", "a > b", "a >= b", "a + b", "a - b", "a * b", "~a", "-a", "a & b", "a | b", "a ^ b", "a == 1", "a != 0", "a is b", "a in [b]", "a < b < True",
                     "a if a < b else b", "a << b", "a >> 1", "a % 2", "a // 1", "a ** b", "max(a, b)", "min(a, b)", "sum([a, b])", "abs(a)", "int(a)", "bool(a)", "a[0]", "len(a)"]}))
    T.append(("def tfun(a: bool, b: bool) -> {rt}:\n    return {e}\n",
              {"rt": ["Qint[2]", "Qint[4]"], "e": ["a", "a + b", "a + 1", "1 if a else 0", "a * 2", "a << 1", "int(a)", "sum([a, b])", "(1 if a else 0) + (1 if b else 0)", "a & 1", "True", "2 if a else b"]}))
    T.append(("def tfun(a: {t}) -> {rt}:\n    return a\n",
              {"t": ["int", "float", "str", "Qint", "Qint[1]", "Qint[9]", "Qint[0]", "Qfixed[1, 1]", "Tuple", "Qlist[bool]", "Qlist[bool, 0]", "List[bool]", "list", "Qfoo[2]", "Qint[2][0]", "bool[2]", "None"],
               "rt": ["bool", "Qint[2]"]}))
    T.append(("def tfun(a: Qint[2]){rt}:\n    return a\n", {"rt": ["", " -> None", " -> int", " -> Qint[1]", " -> Tuple[Qint[2]]", " -> Qlist[Qint[2], 1]", " -> bool", " -> Qchar", " -> Qfixed[1, 2]", " -> Tuple[bool, bool]",
                                                               " -> Qint[3]", " -> Qint[16]"]}))
    T.append(("def tfun(a: Qint[2], b: Qint[2] = 1) -> Qint[2]:\n    return a + b\n", {}))
    T.append(("def tfun(a: Qint[2], *b) -> Qint[2]:\n    return a\n", {}))
    T.append(("def tfun(a: Qint[2], b) -> Qint[2]:\n    return a\n", {}))
    T.append(("def tfun(a: Qint[2], a2: Qint[2]) -> Qint[2]:\n    {v} = a + 1\n    return {v} + a2\n", {"v": ["__x", "_ret", "_x", "x0", "x1", "a2", "anc_0", "TRUE", "FALSE", "q0", "_iftarg2", "_temptup", "tfun", "Qint", "bool", "True_"]}))
    T.append(("def tfun(a: Tuple[bool, bool]) -> bool:\n    return {e}\n", {"e": ["a[2]", "a[-1]", "a[0][0]", "a[True]", "a[0:1][0]", "a < (True, False)", "a == (True,)", "a == (True, False, True)", "a + a == a", "a[1 - 1]", "a[0 + 1]", "a[len(a) - 1]", "a[len(a)]"]}))
    T.append(("def tfun(a: Qlist[Qint[2], 2], i: Qint[2]) -> Qint[2]:\n    return {e}\n", {"e": ["a[i + 1]", "a[i][0]", "a[i] + a[i]", "a[a[0]]", "a[i % 2]", "a[i & 1]", "a[i >> 1]"]}))
    return T


def r_shards(tier):
    out = _tmpl_shards("R", r_templates(tier), 60)
    for d in out:
        d["tier"] = tier
    return out


def r_cases(shard):
    for src in _tmpl_cases(r_templates(shard["tier"]), shard):
        yield {"src": src, "fam": "R"}


# ----------------------------------------------------------------------------------------
# Family M: straight-line boolean programs with temporaries (a value computed once, read by another temporary, possibly
# overwritten, the same sub-expression occurring again as a whole statement) and two results
# ----------------------------------------------------------------------------------------
def m_templates(tier):
    E1 = ["a and b", "a != b", "a or b", "c and (a != b)", "not a", "a ^ b ^ c"]
    E2 = ["t and c", "t != d", "t or c", "c and (a != b)", "not t", "(a != b) or d"]
    MID = ["", "    t = not t\n", "    t = t != c\n", "    u = not u\n", "    t = u\n"]
    R = ["t, u", "t, u != d", "a != b, t != d", "u, t", "t and u, t", "a != b, u", "u != d, t"]
    T = [("def tfun(a: bool, b: bool, c: bool, d: bool) -> Tuple[bool, bool]:\n    t = {e1}\n    u = {e2}\n{mid}    return {r}\n",
          {"e1": E1, "e2": E2, "mid": MID, "r": R})]
    # a plain copy of a computed value, the copy then overwritten in terms of itself, next to another temporary that read the original
    T.append(("def tfun(a: bool, b: bool, c: bool, d: bool) -> Tuple[bool, bool]:\n    x = {e1}\n    t = {e2}\n    y = x\n    y = {upd}\n    z = {e3}\n    return {r}\n",
              {"e1": ["a and b", "a != b", "a or c"], "e2": ["x or c", "x and d", "x != c"], "upd": ["not y", "y != c", "y and d"],
               "e3": ["t and d", "t != a", "t or b"], "r": ["(y, z)", "(z, y)", "(y, t)", "(x, y)"]}))
    # an ARGUMENT overwritten, then conditionally overwritten again (the conditional merges the old and the new value)
    T.append(("def tfun(a: bool, b: bool, c: bool, d: bool) -> bool:\n    a = {e1}\n    if {cond}:\n        a = {e2}\n    return {r}\n",
              {"e1": ["b or c", "b and d", "not b", "b ^ c"], "cond": ["c", "d", "b and c", "not c"], "e2": ["not b", "a and d", "b ^ d", "not a"],
               "r": ["a ^ b", "a", "a and d", "a or c"]}))
    if tier == "thorough":
        T.append(("def tfun(a: bool, b: bool, c: bool, d: bool) -> Tuple[bool, bool, bool]:\n    t = {e1}\n    u = {e2}\n{mid}    v = {e3}\n{mid2}    return {r}, v\n",
                  {"e1": E1, "e2": E2, "mid": MID[:3], "e3": ["t and u", "u != a", "(a != b) and d", "not u"], "mid2": ["", "    v = not v\n", "    u = not u\n"], "r": R[:5]}))
    return T


def m_shards(tier):
    out = _tmpl_shards("M", m_templates(tier), 42)
    for d in out:
        d["tier"] = tier
    return out


def m_cases(shard):
    for src in _tmpl_cases(m_templates(shard["tier"]), shard):
        yield {"src": src, "fam": "M"}


# ----------------------------------------------------------------------------------------
FAMILIES = {"B": (b_shards, b_cases), "I1": (i1_shards, i1_cases), "S": (s_shards, s_cases),
            "T": (t_shards, t_cases), "R": (r_shards, r_cases), "M": (m_shards, m_cases)}


def prog_shards(families, tier):
    out = []
    for f in families:
        out.extend(FAMILIES[f][0](tier))
    return out


def prog_cases(shard):
    return FAMILIES[shard["fam"]][1](shard)
