"""ideal — a truth table turned into a clean minterm xor-oracle circuit, wrapped as a QlassF whose circuit
does not come from the compiler (reference black box for C15 / C16)."""
from . import harness as H


def ideal_circuit(name, in_names, out_names, table):
    """table[r] = tuple of output bits for input row r (input bit i = (r >> i) & 1)."""
    from qlasskit import QCircuit
    n = len(in_names)
    qc = QCircuit(0, name=name)
    for nm in in_names:
        qc.add_qubit(nm)
    for nm in out_names:
        qc.add_qubit(nm)
    for j in range(len(out_names)):
        for r in range(1 << n):
            if not table[r][j]:
                continue
            zeros = [i for i in range(n) if not (r >> i) & 1]
            for i in zeros:
                qc.x(i)
            if n == 0:
                qc.x(n + j)
            else:
                qc.mcx(list(range(n)), n + j)
            for i in zeros:
                qc.x(i)
    return qc


def ideal_qlassf(sig_src, table):
    """sig_src: source of any function with the wanted signature (its body is irrelevant).
    Returns a QlassF object whose circuit is the ideal oracle of `table`."""
    qf = H.translate(sig_src, "default")
    in_names = H.input_names(qf)
    out_names = list(qf.returns.bitvec)
    qf._qcircuit = ideal_circuit(qf.name, in_names, out_names, table)
    return qf
