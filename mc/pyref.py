"""pyref — the meaning of a program (DESIGN.md §3.5).

The source is executed by CPython itself in a namespace where Qint[k], Qfixed[i,f], Qchar, Tuple,
Qlist, Qmatrix denote plain reference value classes.  RefInt carries the exact (unbounded) integer,
the width of its documented type and `ok` = number of low bits that are determined (INF while no
intermediate has left the range of its type; a wrap-around overflow of a w-bit intermediate leaves
w bits determined; only + - * << & | ^ ~ propagate partially determined values).  Any other use of a
partially determined value raises Undetermined and the input row is only counted.

The only rewriting done on the source is  `x if c else y`  ->  _ite(c, lambda: x, lambda: y)  so that
the result can take the wider of the two branch types, as the documented if-expression does.
"""
import ast
from fractions import Fraction

INF = 10 ** 9
CONST_WIDTHS = (2, 4, 6, 8, 12, 16)


class Undetermined(Exception):
    """This input row has no determined expected value (overflow reached a non-ring operator, the
    Python function itself raises, ...)."""


class Unsupported(Exception):
    """The reference model does not define this program: it is not judged at all."""


def const_width(v):
    for w in CONST_WIDTHS:
        if v < 2 ** w:
            return w
    raise Unsupported("constant too big")


def mul_bucket(s):
    for w in (2, 4, 6, 8, 12, 16):
        if s <= w:
            return w
    return 16


class RefInt:
    __slots__ = ("v", "w", "ok")

    def __init__(self, v, w, ok=INF):
        self.v = v
        self.w = w
        if not (0 <= v < (1 << w)):
            ok = min(ok, w)
        self.ok = ok

    def __repr__(self):
        return "RefInt(%d,w=%d,ok=%s)" % (self.v, self.w, "INF" if self.ok >= INF else self.ok)

    # ---- helpers
    @staticmethod
    def lift(x):
        if isinstance(x, RefInt):
            return x
        if isinstance(x, bool):
            raise Unsupported("bool used as integer")
        if isinstance(x, int):
            if x < 0:
                raise Unsupported("negative constant")
            return RefInt(x, const_width(x))
        raise Unsupported("operand %r" % type(x).__name__)

    def exact(self):
        if self.ok < INF:
            raise Undetermined("partially determined value used by a non-ring operator")
        return self.v

    # ---- ring operators
    def __add__(self, o):
        o = RefInt.lift(o)
        return RefInt(self.v + o.v, max(self.w, o.w), min(self.ok, o.ok))

    def __radd__(self, o):
        return RefInt.lift(o).__add__(self)

    def __sub__(self, o):
        o = RefInt.lift(o)
        return RefInt(self.v - o.v, max(self.w, o.w), min(self.ok, o.ok))

    def __rsub__(self, o):
        return RefInt.lift(o).__sub__(self)

    def __mul__(self, o):
        o = RefInt.lift(o)
        return RefInt(self.v * o.v, mul_bucket(2 * max(self.w, o.w)), min(self.ok, o.ok))

    def __rmul__(self, o):
        return RefInt.lift(o).__mul__(self)

    def __and__(self, o):
        o = RefInt.lift(o)
        return RefInt(self.v & o.v, max(self.w, o.w), min(self.ok, o.ok))

    def __rand__(self, o):
        return RefInt.lift(o).__and__(self)

    def __or__(self, o):
        o = RefInt.lift(o)
        return RefInt(self.v | o.v, max(self.w, o.w), min(self.ok, o.ok))

    def __ror__(self, o):
        return RefInt.lift(o).__or__(self)

    def __xor__(self, o):
        o = RefInt.lift(o)
        return RefInt(self.v ^ o.v, max(self.w, o.w), min(self.ok, o.ok))

    def __rxor__(self, o):
        return RefInt.lift(o).__xor__(self)

    def __invert__(self):
        # complement within the type's width (unsigned fixed-width meaning of ~)
        return RefInt((1 << self.w) - 1 - self.v, self.w, self.ok)

    def __lshift__(self, k):
        if isinstance(k, RefInt):
            k = k.exact()
        if not isinstance(k, int) or isinstance(k, bool) or k < 0:
            raise Unsupported("shift amount")
        return RefInt(self.v << k, self.w, self.ok)

    def __pow__(self, k):
        if isinstance(k, RefInt):
            k = k.exact()
        if not isinstance(k, int) or isinstance(k, bool) or k < 0:
            raise Unsupported("exponent")
        if k == 0:
            return RefInt(1, 2)
        r = self
        for _ in range(k - 1):
            r = r * self
        return r

    # ---- non-ring operators (need exact operands)
    def __rshift__(self, k):
        if isinstance(k, RefInt):
            k = k.exact()
        if not isinstance(k, int) or isinstance(k, bool) or k < 0:
            raise Unsupported("shift amount")
        return RefInt(self.exact() >> k, self.w)

    def __mod__(self, o):
        o = RefInt.lift(o)
        if o.exact() == 0:
            raise Undetermined("modulo by zero")
        return RefInt(self.exact() % o.exact(), self.w)

    def __floordiv__(self, o):
        o = RefInt.lift(o)
        if o.exact() == 0:
            raise Undetermined("division by zero")
        return RefInt(self.exact() // o.exact(), self.w)

    def __truediv__(self, o):
        raise Unsupported("true division")

    def __neg__(self):
        return RefInt(-self.v, self.w, self.ok)

    def __pos__(self):
        return self

    def __abs__(self):
        return RefInt(abs(self.exact()), self.w)

    def _cmp(self, o):
        o = RefInt.lift(o) if not isinstance(o, RefFixed) else o
        if isinstance(o, RefFixed):
            raise Unsupported("int/fixed comparison")
        return self.exact(), o.exact()

    def __eq__(self, o):
        if isinstance(o, (bool, str, tuple, list)) or o is None:
            raise Unsupported("int compared with %s" % type(o).__name__)
        a, b = self._cmp(o)
        return a == b

    def __ne__(self, o):
        return not self.__eq__(o)

    def __lt__(self, o):
        a, b = self._cmp(o)
        return a < b

    def __le__(self, o):
        a, b = self._cmp(o)
        return a <= b

    def __gt__(self, o):
        a, b = self._cmp(o)
        return a > b

    def __ge__(self, o):
        a, b = self._cmp(o)
        return a >= b

    __hash__ = None

    def __bool__(self):
        raise Unsupported("integer used as truth value")

    def __index__(self):
        return self.exact()

    def __getitem__(self, i):
        if isinstance(i, RefInt):
            i = i.exact()
        if not isinstance(i, int) or isinstance(i, bool):
            raise Unsupported("bit index")
        if i < 0 or i >= self.w:
            raise Unsupported("bit index out of range")
        if self.ok <= i:
            raise Undetermined("undetermined bit read")
        return bool((self.v >> i) & 1)

    def __len__(self):
        raise Unsupported("len of int")

    def __iter__(self):
        raise Unsupported("iteration over int")


class RefFixed:
    """Exact rational with a Qfixed[i,f] type; any value outside the type's range is Undetermined."""
    __slots__ = ("v", "wi", "wf")

    def __init__(self, v, wi, wf):
        self.v = Fraction(v)
        self.wi = wi
        self.wf = wf
        if not (0 <= self.v < (1 << wi)) or (self.v * (1 << wf)).denominator != 1:
            raise Undetermined("fixed-point value not representable")

    def __repr__(self):
        return "RefFixed(%s,%d_%d)" % (self.v, self.wi, self.wf)

    def _same(self, o):
        if isinstance(o, RefFixed):
            if (o.wi, o.wf) != (self.wi, self.wf):
                raise Unsupported("mixed fixed types")
            return o
        if isinstance(o, float):
            # documented: constants are given the first shipped Qfixed type that holds them within 0.05;
            # the model only defines constants exactly representable in the other operand's type
            f = Fraction(o)
            if (f * (1 << self.wf)).denominator != 1 or not (0 <= f < (1 << self.wi)):
                raise Unsupported("fixed constant not representable")
            return RefFixed(f, self.wi, self.wf)
        raise Unsupported("fixed operand %s" % type(o).__name__)

    def __add__(self, o):
        o = self._same(o)
        return RefFixed(self.v + o.v, self.wi, self.wf)

    __radd__ = __add__

    def __sub__(self, o):
        o = self._same(o)
        return RefFixed(self.v - o.v, self.wi, self.wf)

    def __rsub__(self, o):
        return self._same(o).__sub__(self)

    def __mul__(self, o):
        if isinstance(o, bool) or not isinstance(o, int) or o < 0:
            raise Unsupported("fixed multiplied by non-constant")
        return RefFixed(self.v * o, self.wi, self.wf)

    __rmul__ = __mul__

    def __eq__(self, o):
        if isinstance(o, (bool, str, tuple, list, RefInt, int)) or o is None:
            raise Unsupported("fixed compared with %s" % type(o).__name__)
        return self.v == self._same(o).v

    def __ne__(self, o):
        return not self.__eq__(o)

    def __lt__(self, o):
        return self.v < self._same(o).v

    def __le__(self, o):
        return self.v <= self._same(o).v

    def __gt__(self, o):
        return self.v > self._same(o).v

    def __ge__(self, o):
        return self.v >= self._same(o).v

    __hash__ = None

    def __bool__(self):
        raise Unsupported("fixed used as truth value")


# ---------------------------------------------------------------------------- types
class T:
    """Reference type descriptors produced by evaluating annotations."""

    def __init__(self, kind, *a):
        self.kind = kind
        self.a = a

    def __repr__(self):
        return "%s%r" % (self.kind, self.a)

    def width(self):
        k = self.kind
        if k == "bool":
            return 1
        if k == "int":
            return self.a[0]
        if k == "fixed":
            return self.a[0] + self.a[1]
        if k == "char":
            return 8
        if k == "tuple":
            return sum(x.width() for x in self.a)
        raise Unsupported(k)


def _norm(t):
    if t is bool:
        return T("bool")
    if isinstance(t, T):
        return t
    raise Unsupported("type %r" % (t,))


class _Sub:
    def __init__(self, f):
        self.f = f

    def __getitem__(self, p):
        return self.f(p)


def _qint(p):
    if not isinstance(p, int):
        raise Unsupported("Qint[%r]" % (p,))
    return T("int", p)


def _qfixed(p):
    return T("fixed", p[0], p[1])


def _tuple(p):
    if not isinstance(p, tuple):
        p = (p,)
    return T("tuple", *[_norm(x) for x in p])


def _qlist(p):
    return T("tuple", *([_norm(p[0])] * p[1]))


def _qmatrix(p):
    row = T("tuple", *([_norm(p[0])] * p[2]))
    return T("tuple", *([row] * p[1]))


def _param(p):
    return T("param", _norm(p))


def decode_value(t, bits):
    """bits: list of 0/1 in the type's bit order -> reference value."""
    k = t.kind
    if k == "bool":
        return bool(bits[0])
    if k == "int":
        return RefInt(sum(b << i for i, b in enumerate(bits)), t.a[0])
    if k == "fixed":
        wi, wf = t.a
        v = Fraction(sum(b << i for i, b in enumerate(bits[:wi])))
        for i, b in enumerate(bits[wi:]):
            if b:
                v += Fraction(1, 2 ** (i + 1))
        return RefFixed(v, wi, wf)
    if k == "char":
        return chr(sum(b << i for i, b in enumerate(bits)))
    if k == "tuple":
        out = []
        p = 0
        for x in t.a:
            w = x.width()
            out.append(decode_value(x, bits[p:p + w]))
            p += w
        return tuple(out)
    raise Unsupported(k)


def encode_value(t, v):
    """Reference value -> list of (bit or None) of the type's width.  None = not determined."""
    k = t.kind
    if k == "bool":
        if not isinstance(v, bool):
            raise Unsupported("bool result expected, got %s" % type(v).__name__)
        return [int(v)]
    if k == "int":
        if isinstance(v, bool):
            raise Unsupported("int result expected, got bool")
        if isinstance(v, int):
            v = RefInt.lift(v)
        if not isinstance(v, RefInt):
            raise Unsupported("int result expected, got %s" % type(v).__name__)
        w = t.a[0]
        return [((v.v >> i) & 1) if i < v.ok else None for i in range(w)]
    if k == "fixed":
        wi, wf = t.a
        if isinstance(v, float):
            f = Fraction(v)
            if (f * (1 << wf)).denominator != 1 or not (0 <= f < (1 << wi)):
                raise Unsupported("fixed constant result not representable")
            v = RefFixed(f, wi, wf)
        if not isinstance(v, RefFixed) or (v.wi, v.wf) != (wi, wf):
            raise Unsupported("fixed result of another type")
        ip = int(v.v)
        fr = v.v - ip
        bits = [(ip >> i) & 1 for i in range(wi)]
        for i in range(wf):
            fr *= 2
            b = int(fr >= 1)
            bits.append(b)
            fr -= b
        return bits
    if k == "char":
        if not isinstance(v, str) or len(v) != 1 or ord(v) > 255:
            raise Unsupported("char result expected")
        return [(ord(v) >> i) & 1 for i in range(8)]
    if k == "tuple":
        if not isinstance(v, (tuple, list)) or len(v) != len(t.a):
            raise Unsupported("tuple result shape")
        out = []
        for x, e in zip(t.a, v):
            out.extend(encode_value(x, e))
        return out
    raise Unsupported(k)


# ---------------------------------------------------------------------------- builtins
def _ite(c, ft, fe):
    if not isinstance(c, bool):
        raise Unsupported("non-bool condition")
    chosen = ft() if c else fe()
    if isinstance(chosen, RefInt):
        try:
            other = fe() if c else ft()
        except (Undetermined, IndexError, ZeroDivisionError):
            raise Undetermined("type of the branch not taken is unknown")
        if isinstance(other, int) and not isinstance(other, bool):
            other = RefInt.lift(other)
        if isinstance(other, RefInt) and other.w > chosen.w:
            r = RefInt(chosen.v, other.w, chosen.ok)
            return r
    elif isinstance(chosen, int) and not isinstance(chosen, bool):
        other = fe() if c else ft()
        chosen = RefInt.lift(chosen)
        if isinstance(other, int) and not isinstance(other, bool):
            other = RefInt.lift(other)
        if isinstance(other, RefInt) and other.w > chosen.w:
            return RefInt(chosen.v, other.w, chosen.ok)
    return chosen


def _unroll(args):
    if len(args) == 1 and isinstance(args[0], (tuple, list)):
        return list(args[0])
    return list(args)


def _widen(x, others):
    if isinstance(x, int) and not isinstance(x, bool):
        x = RefInt.lift(x)
    if isinstance(x, RefInt):
        w = x.w
        for o in others:
            if isinstance(o, int) and not isinstance(o, bool):
                o = RefInt.lift(o)
            if isinstance(o, RefInt):
                w = max(w, o.w)
        if w > x.w:
            return RefInt(x.v, w, x.ok)
    return x


def _max(*args):
    l = _unroll(args)
    if not l:
        raise Unsupported("max of nothing")

    def it(l):
        if len(l) == 1:
            return l[0]
        c = all(l[0] > x for x in l[1:])
        rest = it(l[1:])
        return _widen(l[0] if c else rest, [l[0], rest])
    return it(l)


def _min(*args):
    l = _unroll(args)
    if not l:
        raise Unsupported("min of nothing")

    def it(l):
        if len(l) == 1:
            return l[0]
        c = all(l[0] <= x for x in l[1:])
        rest = it(l[1:])
        return _widen(l[0] if c else rest, [l[0], rest])
    return it(l)


def _sum(x):
    l = list(x)
    if not l:
        raise Unsupported("sum of nothing")

    def it(l):
        if len(l) == 1:
            return l[0]
        return l[0] + it(l[1:])
    return it(l)


def _ord(c):
    if not isinstance(c, str):
        raise Unsupported("ord of non-char")
    return RefInt(ord(c), 8)


def _chr(x):
    x = RefInt.lift(x)
    v = x.exact()
    if not 0 <= v < 256:
        raise Undetermined("chr out of range")
    return chr(v)


def _int(x):
    if isinstance(x, RefInt):
        return x
    if isinstance(x, RefFixed):
        return RefInt(int(x.v), x.wi if x.wi >= 2 else 2)
    raise Unsupported("int() of %s" % type(x).__name__)


def _float(x):
    if isinstance(x, RefFixed):
        return x
    raise Unsupported("float() of %s" % type(x).__name__)


def _all(x):
    l = list(x)
    for e in l:
        if not isinstance(e, bool):
            raise Unsupported("all() of non-bool")
    return all(l)


def _any(x):
    l = list(x)
    for e in l:
        if not isinstance(e, bool):
            raise Unsupported("any() of non-bool")
    return any(l)


def _print(*a, **k):
    return None


class _QintCtor:
    """Qint2(3) style typed constants."""

    def __init__(self, w):
        self.w = w

    def __call__(self, v):
        if not isinstance(v, int) or isinstance(v, bool) or v < 0:
            raise Unsupported("typed constant")
        return RefInt(v % (1 << self.w), self.w)


def namespace():
    ns = {
        "Qint": _Sub(_qint), "Qfixed": _Sub(_qfixed), "Qchar": T("char"), "Tuple": _Sub(_tuple),
        "Qlist": _Sub(_qlist), "Qmatrix": _Sub(_qmatrix), "Parameter": _Sub(_param), "List": _Sub(_tuple),
        "_ite": _ite, "_c": _c, "max": _max, "min": _min, "sum": _sum, "ord": _ord, "chr": _chr, "int": _int,
        "float": _float, "all": _all, "any": _any, "print": _print,
    }
    for w in (2, 3, 4, 5, 6, 7, 8, 12, 16):
        ns["Qint%d" % w] = _QintCtor(w)
    return ns


class _IteRewriter(ast.NodeTransformer):
    def visit_IfExp(self, node):
        self.generic_visit(node)
        lam = lambda b: ast.Lambda(  # noqa: E731
            args=ast.arguments(posonlyargs=[], args=[], kwonlyargs=[], kw_defaults=[], defaults=[]), body=b)
        return ast.Call(func=ast.Name(id="_ite", ctx=ast.Load()), args=[node.test, lam(node.body), lam(node.orelse)],
                        keywords=[])


class _ConstWrap(ast.NodeTransformer):
    """Integer literals in the function body denote typed constants (smallest of 2/4/6/8/12/16 bits), so
    that `z = 3; z += 1` overflows a 2-bit type as documented.  Literal-only sub-expressions are folded
    first, as the documented constant folding does (3 + 1 is the constant 4)."""

    @staticmethod
    def _lit(n):
        return isinstance(n, ast.Constant) and isinstance(n.value, int) and not isinstance(n.value, bool)

    def visit_BinOp(self, node):
        import operator
        l = self._fold(node.left)
        r = self._fold(node.right)
        node.left, node.right = l, r
        if self._lit(l) and self._lit(r):
            op = {ast.Add: operator.add, ast.Sub: operator.sub, ast.Mult: operator.mul, ast.FloorDiv: operator.floordiv,
                  ast.Mod: operator.mod, ast.Pow: operator.pow, ast.LShift: operator.lshift, ast.RShift: operator.rshift,
                  ast.BitOr: operator.or_, ast.BitXor: operator.xor, ast.BitAnd: operator.and_}.get(type(node.op))
            if op:
                try:
                    return ast.Constant(op(l.value, r.value))
                except Exception:
                    pass
        return node

    def _fold(self, n):
        if isinstance(n, ast.BinOp):
            return self.visit_BinOp(n)
        return n

    def visit_FunctionDef(self, node):
        node.body = [_ConstWrap2().visit(self.visit(b)) for b in node.body]
        return node


class _ConstWrap2(ast.NodeTransformer):
    def visit_Constant(self, node):
        if isinstance(node.value, int) and not isinstance(node.value, bool):
            return ast.Call(func=ast.Name(id="_c", ctx=ast.Load()), args=[node], keywords=[])
        return node

    def visit_Call(self, node):
        # typed-constant constructors keep their literal argument
        if isinstance(node.func, ast.Name) and node.func.id.startswith("Qint") and node.func.id[4:].isdigit():
            return node
        self.generic_visit(node)
        return node

    def visit_FunctionDef(self, node):
        # nested function definitions: body only
        node.body = [self.visit(b) for b in node.body]
        return node


def _c(v):
    if isinstance(v, RefInt):
        return v
    if v < 0:
        raise Unsupported("negative constant")
    return RefInt(v, const_width(v))


class _AnnFix(ast.NodeTransformer):
    """`Qint2`-style annotation names denote the same type as Qint[2]."""

    def fix(self, ann):
        if isinstance(ann, ast.Name) and ann.id.startswith("Qint") and ann.id[4:].isdigit():
            return ast.Subscript(value=ast.Name(id="Qint", ctx=ast.Load()), slice=ast.Constant(int(ann.id[4:])),
                                 ctx=ast.Load())
        if isinstance(ann, ast.Subscript):
            ann.slice = self.fix(ann.slice)
        if isinstance(ann, ast.Tuple):
            ann.elts = [self.fix(e) for e in ann.elts]
        return ann

    def visit_FunctionDef(self, node):
        for a in node.args.args:
            if a.annotation is not None:
                a.annotation = self.fix(a.annotation)
        if node.returns is not None:
            node.returns = self.fix(node.returns)
        self.generic_visit(node)
        return node


class Program:
    """A loaded reference program: signature + callable."""

    def __init__(self, src, extra_ns=None, fname=None):
        tree = ast.parse(src)
        tree = _AnnFix().visit(tree)
        tree = _ConstWrap().visit(tree)
        tree = _IteRewriter().visit(tree)
        ast.fix_missing_locations(tree)
        ns = namespace()
        if extra_ns:
            ns.update(extra_ns)
        try:
            exec(compile(tree, "<pyref>", "exec"), ns)
        except (Unsupported, Undetermined):
            raise
        except Exception as e:
            raise Unsupported("reference cannot load the program: %s: %s" % (type(e).__name__, e))
        fdefs = [n for n in tree.body if isinstance(n, ast.FunctionDef)]
        name = fname or fdefs[-1].name
        self.fn = ns[name]
        self.ns = ns
        fd = [n for n in fdefs if n.name == name][0]
        self.argnames = [a.arg for a in fd.args.args]
        ann = self.fn.__annotations__
        try:
            self.argtypes = [_norm(ann[a]) for a in self.argnames]
            self.ret = _norm(ann["return"])
        except KeyError:
            raise Unsupported("missing annotation")
        self.params = [a for a, t in zip(self.argnames, self.argtypes) if t.kind == "param"]

    def input_widths(self, bound=None):
        bound = bound or {}
        return [t.width() for a, t in zip(self.argnames, self.argtypes) if t.kind != "param"]

    def n_inputs(self):
        return sum(self.input_widths())

    def call_row(self, r, params=None):
        """Evaluate on input row r (input bit i = (r>>i)&1, bits in argument order)."""
        args = []
        p = 0
        for a, t in zip(self.argnames, self.argtypes):
            if t.kind == "param":
                args.append(params[a])
                continue
            w = t.width()
            bits = [(r >> (p + i)) & 1 for i in range(w)]
            p += w
            args.append(decode_value(t, bits))
        return self.fn(*args)

    def table(self, params=None):
        """-> (want, care, n_undetermined): per return bit, columns over all rows.
        Raises Unsupported if the model does not define the program."""
        n = self.n_inputs()
        w = self.ret.width()
        want = [0] * w
        care = [0] * w
        und = 0
        for r in range(1 << n):
            try:
                v = self.call_row(r, params)
                bits = encode_value(self.ret, v)
            except Undetermined:
                und += 1
                continue
            except (IndexError, ZeroDivisionError, OverflowError):
                und += 1  # the Python function itself is undefined here
                continue
            except Unsupported:
                raise
            except RecursionError:
                raise Unsupported("recursion")
            except (TypeError, ValueError, AttributeError, KeyError, NameError) as e:
                raise Unsupported("python raises %s: %s" % (type(e).__name__, e))
            for i, b in enumerate(bits):
                if b is None:
                    continue
                care[i] |= 1 << r
                if b:
                    want[i] |= 1 << r
        return want, care, und
