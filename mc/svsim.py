"""svsim — numpy unitary simulator for the library's whole gate set (reference model).

Qubit 0 is the least significant bit of the basis index.  unitary(gates, n)[:, j] is the image of |j>.
Gates are the (gate_obj, qubits, param) triples stored by qlasskit.QCircuit; they are recognised by class
name and, for controlled gates, by (n_controls, base gate name).
"""
import cmath
import math

import numpy as np

SQ2 = 1.0 / math.sqrt(2.0)


class Unsupported(Exception):
    pass


def base_matrix(name, param):
    if name == "I":
        return np.array([[1, 0], [0, 1]], dtype=complex)
    if name == "X":
        return np.array([[0, 1], [1, 0]], dtype=complex)
    if name == "Y":
        return np.array([[0, -1j], [1j, 0]], dtype=complex)
    if name == "Z":
        return np.array([[1, 0], [0, -1]], dtype=complex)
    if name == "H":
        return np.array([[SQ2, SQ2], [SQ2, -SQ2]], dtype=complex)
    if name == "S":
        return np.array([[1, 0], [0, 1j]], dtype=complex)
    if name == "T":
        return np.array([[1, 0], [0, cmath.exp(1j * math.pi / 4)]], dtype=complex)
    if name == "P":
        if param is None:
            raise Unsupported("P without parameter")
        return np.array([[1, 0], [0, cmath.exp(1j * float(param))]], dtype=complex)
    raise Unsupported(name)


def apply_1q(U, n, t, m, controls=()):
    idx = np.arange(1 << n)
    sel = (idx >> t) & 1 == 0
    for c in controls:
        sel &= (idx >> c) & 1 == 1
    i0 = idx[sel]
    i1 = i0 | (1 << t)
    a = U[i0].copy()
    b = U[i1].copy()
    U[i0] = m[0, 0] * a + m[0, 1] * b
    U[i1] = m[1, 0] * a + m[1, 1] * b


def apply_swap(U, n, a, b):
    idx = np.arange(1 << n)
    ba = (idx >> a) & 1
    bb = (idx >> b) & 1
    perm = idx ^ (((ba ^ bb) << a) | ((ba ^ bb) << b))
    U[:] = U[perm]


def describe(g):
    """(kind, n_controls, base name) of a library gate object."""
    cls = g.__class__.__name__
    if hasattr(g, "is_nop") and g.is_nop():
        return ("nop", 0, None)
    if hasattr(g, "n_controls") and hasattr(g, "gate"):
        return ("ctrl", g.n_controls, g.gate.__class__.__name__)
    if cls == "Swap":
        return ("swap", 0, None)
    return ("1q", 0, cls)


def apply_gate(U, n, g, w, p):
    kind, nc, base = describe(g)
    if kind == "nop":
        return
    if any((not isinstance(q, (int, np.integer))) or q < 0 or q >= n for q in w):
        raise Unsupported("qubit out of range %r" % (w,))
    if len(set(w)) != len(w):
        raise Unsupported("duplicate qubit %r" % (w,))
    if kind == "swap":
        apply_swap(U, n, w[0], w[1])
    elif kind == "ctrl":
        if len(w) != nc + 1:
            raise Unsupported("arity")
        apply_1q(U, n, w[nc], base_matrix(base, p), controls=w[:nc])
    else:
        if len(w) != 1:
            raise Unsupported("arity")
        apply_1q(U, n, w[0], base_matrix(base, p))


def unitary(gates, n):
    U = np.eye(1 << n, dtype=complex)
    for g, w, p in gates:
        apply_gate(U, n, g, list(w), p)
    return U


def state(gates, n, init=0):
    v = np.zeros((1 << n, 1), dtype=complex)
    v[init, 0] = 1
    for g, w, p in gates:
        apply_gate(v, n, g, list(w), p)
    return v[:, 0]


def close(A, B, tol=1e-9):
    return A.shape == B.shape and np.allclose(A, B, atol=tol, rtol=0)


def close_up_to_phase(A, B, tol=1e-9):
    if A.shape != B.shape:
        return False
    k = np.argmax(np.abs(B))
    i = np.unravel_index(k, B.shape)
    if abs(B[i]) < 1e-12 or abs(A[i]) < 1e-12:
        return False
    ph = A[i] / B[i]
    return abs(abs(ph) - 1) < 1e-9 and np.allclose(A, ph * B, atol=tol, rtol=0)


def marginal(vec, n, qubits):
    """Probability distribution of the listed qubits: result index bit j = value of qubits[j]."""
    p = np.abs(vec) ** 2
    idx = np.arange(1 << n)
    key = np.zeros(1 << n, dtype=np.int64)
    for j, q in enumerate(qubits):
        key |= ((idx >> q) & 1) << j
    out = np.zeros(1 << len(qubits))
    np.add.at(out, key, p)
    return out


def perm_of_classical(cols, n, M):
    """Permutation implied by bitsim columns (all n qubits are inputs): image[j]."""
    img = [0] * (1 << n)
    for r in range(1 << n):
        v = 0
        for q in range(n):
            if (cols[q] >> r) & 1:
                v |= 1 << q
        img[r] = v
    return img
