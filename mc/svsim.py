"""svsim — numpy unitary simulator for the library's whole gate set (reference model).

Qubit 0 is the least significant bit of the basis index.  unitary(gates, n)[:, j] is the image of |j>.
Gates are the (gate_obj, qubits, param) triples stored by qlasskit.QCircuit; they are recognised by class
name and, for controlled gates, by (n_controls, base gate name).
"""
import cmath
import math

import numpy as np

SQ2 = 1.0 / math.sqrt(2.0)


class Unsupported(Exception):
    pass


def base_matrix(name, param):
    if name == "I":
        return np.array([[1, 0], [0, 1]], dtype=complex)
    if name == "X":
        return np.array([[0, 1], [1, 0]], dtype=complex)
    if name == "Y":
        return np.array([[0, -1j], [1j, 0]], dtype=complex)
    if name == "Z":
        return np.array([[1, 0], [0, -1]], dtype=complex)
    if name == "H":
        return np.array([[SQ2, SQ2], [SQ2, -SQ2]], dtype=complex)
    if name == "S":
        return np.array([[1, 0], [0, 1j]], dtype=complex)
    if name == "T":
        return np.array([[1, 0], [0, cmath.exp(1j * math.pi / 4)]], dtype=complex)
    if name == "P":
        if param is None:
            raise Unsupported("P without parameter")
        return np.array([[1, 0], [0, cmath.exp(1j * float(param))]], dtype=complex)
    raise Unsupported(name)


def apply_1q(U, n, t, m, controls=()):
    idx = np.arange(1 << n)
    sel = (idx >> t) & 1 == 0
    for c in controls:
        sel &= (idx >> c) & 1 == 1
    i0 = idx[sel]
    i1 = i0 | (1 << t)
    a = U[i0].copy()
    b = U[i1].copy()
    U[i0] = m[0, 0] * a + m[0, 1] * b
    U[i1] = m[1, 0] * a + m[1, 1] * b


def apply_swap(U, n, a, b):
    idx = np.arange(1 << n)
    ba = (idx >> a) & 1
    bb = (idx >> b) & 1
    perm = idx ^ (((ba ^ bb) << a) | ((ba ^ bb) << b))
    U[:] = U[perm]


def describe(g):
    """(kind, n_controls, base name) of a library gate object."""
    cls = g.__class__.__name__
    if hasattr(g, "is_nop") and g.is_nop():
        return ("nop", 0, None)
    if hasattr(g, "n_controls") and hasattr(g, "gate"):
        return ("ctrl", g.n_controls, g.gate.__class__.__name__)
    if cls == "Swap":
        return ("swap", 0, None)
    return ("1q", 0, cls)


def apply_gate(U, n, g, w, p):
    kind, nc, base = describe(g)
    if kind == "nop":
        return
    if any((not isinstance(q, (int, np.integer))) or q < 0 or q >= n for q in w):
        raise Unsupported("qubit out of range %r" % (w,))
    if len(set(w)) != len(w):
        raise Unsupported("duplicate qubit %r" % (w,))
    if kind == "swap":
        apply_swap(U, n, w[0], w[1])
    elif kind == "ctrl":
        if len(w) != nc + 1:
            raise Unsupported("arity")
        apply_1q(U, n, w[nc], base_matrix(base, p), controls=w[:nc])
    else:
        if len(w) != 1:
            raise Unsupported("arity")
        apply_1q(U, n, w[0], base_matrix(base, p))


def unitary(gates, n):
    U = np.eye(1 << n, dtype=complex)
    for g, w, p in gates:
        apply_gate(U, n, g, list(w), p)
    return U


def state(gates, n, init=0):
    v = np.zeros((1 << n, 1), dtype=complex)
    v[init, 0] = 1
    for g, w, p in gates:
        apply_gate(v, n, g, list(w), p)
    return v[:, 0]


def close(A, B, tol=1e-9):
    return A.shape == B.shape and np.allclose(A, B, atol=tol, rtol=0)


def close_up_to_phase(A, B, tol=1e-9):
    if A.shape != B.shape:
        return False
    k = np.argmax(np.abs(B))
    i = np.unravel_index(k, B.shape)
    if abs(B[i]) < 1e-12 or abs(A[i]) < 1e-12:
        return False
    ph = A[i] / B[i]
    return abs(abs(ph) - 1) < 1e-9 and np.allclose(A, ph * B, atol=tol, rtol=0)


def marginal(vec, n, qubits):
    """Probability distribution of the listed qubits: result index bit j = value of qubits[j]."""
    p = np.abs(vec) ** 2
    idx = np.arange(1 << n)
    key = np.zeros(1 << n, dtype=np.int64)
    for j, q in enumerate(qubits):
        key |= ((idx >> q) & 1) << j
    out = np.zeros(1 << len(qubits))
    np.add.at(out, key, p)
    return out


def perm_of_classical(cols, n, M):
    """Permutation implied by bitsim columns (all n qubits are inputs): image[j]."""
    img = [0] * (1 << n)
    for r in range(1 << n):
        v = 0
        for q in range(n):
            if (cols[q] >> r) & 1:
                v |= 1 << q
        img[r] = v
    return img


# ------------------------------------------------------------------------------------------------
# Sparse exact simulation (dict basis index -> amplitude): classical gates only permute keys, so the
# number of non-zero amplitudes of an algorithm circuit (Hadamards on a small register around a
# compiled classical oracle) stays tiny whatever the number of scratch qubits.
def sparse_run(gates, n, init=0, eps=1e-13):
    st = {init: 1.0 + 0j}
    for g, w, p in gates:
        kind, nc, base = describe(g)
        if kind == "nop":
            continue
        w = list(w)
        if any((not isinstance(q, (int, np.integer))) or q < 0 or q >= n for q in w) or len(set(w)) != len(w):
            raise Unsupported("bad qubits %r" % (w,))
        if kind == "swap":
            a, b = w
            new = {}
            for k, v in st.items():
                ba, bb = (k >> a) & 1, (k >> b) & 1
                if ba != bb:
                    k ^= (1 << a) | (1 << b)
                new[k] = new.get(k, 0) + v
            st = new
            continue
        if kind == "ctrl":
            ctr, t = w[:nc], w[nc]
        else:
            ctr, t = [], w[0]
        m = base_matrix(base, p)
        cm = 0
        for c in ctr:
            cm |= 1 << c
        tb = 1 << t
        if m[0, 1] == 0 and m[1, 0] == 0:  # diagonal
            for k in list(st):
                if (k & cm) == cm:
                    st[k] *= m[1, 1] if k & tb else m[0, 0]
        elif m[0, 0] == 0 and m[1, 1] == 0:  # anti-diagonal (X, Y): permutation with phases
            new = {}
            for k, v in st.items():
                if (k & cm) == cm:
                    if k & tb:
                        new[k ^ tb] = new.get(k ^ tb, 0) + m[0, 1] * v
                    else:
                        new[k ^ tb] = new.get(k ^ tb, 0) + m[1, 0] * v
                else:
                    new[k] = new.get(k, 0) + v
            st = new
        else:
            new = {}
            for k, v in st.items():
                if (k & cm) == cm:
                    k0, k1 = k & ~tb, k | tb
                    if k & tb:
                        new[k0] = new.get(k0, 0) + m[0, 1] * v
                        new[k1] = new.get(k1, 0) + m[1, 1] * v
                    else:
                        new[k0] = new.get(k0, 0) + m[0, 0] * v
                        new[k1] = new.get(k1, 0) + m[1, 0] * v
                else:
                    new[k] = new.get(k, 0) + v
            st = {k: v for k, v in new.items() if abs(v) > eps}
    return st


def sparse_marginal(st, qubits):
    out = [0.0] * (1 << len(qubits))
    for k, v in st.items():
        idx = 0
        for j, q in enumerate(qubits):
            idx |= ((k >> q) & 1) << j
        out[idx] += abs(v) ** 2
    return out
