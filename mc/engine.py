"""Parallel exhaustive runner shared by every check.

A check module provides
    ID                      property id
    shards(tier)            -> list of small JSON-able shard descriptors (deterministic order)
    cases(shard)            -> iterator of case dicts; case["key"] is the canonical text of the case
    run_case(case)          -> result dict (see below)
    META                    dict: rule, assumptions, bound(tier) text, level text
    conformance(tier)       -> (n_comparisons, [failure strings])   optional oracle self-checks

result dict:
    status    "ok" | "violation" | "rejected" | "skipped" | "capped"
    rows      number of oracle evaluations done for this case (inputs, gate appends, ...)
    nontrivial bool
    outcome   short string digest of the observed behaviour (distinct outcomes are counted)
    digest    (violations) digest of the *wrong* behaviour, used to match known findings
    detail    (violations) JSON-able description: expected / observed / failing input
    counters  optional dict name -> int, summed into the evidence

The engine never samples: every case of every shard is executed. A per-case CPU cap turns a
case into status "capped"; any capped case makes the run non-exhaustive in the evidence.
"""
import hashlib
import importlib
import json
import multiprocessing as mp
import os
import signal
import sys
import time
import traceback

VERIF = os.path.dirname(os.path.dirname(os.path.abspath(__file__)))
CASE_CAP_S = int(os.environ.get("VERIF_CASE_CAP", "30"))
MAX_REPORTED = 25  # VIOLATION lines printed (all violations are counted)


def khash(key):
    return hashlib.sha1(key.encode()).hexdigest()[:16]


def dig(obj):
    return hashlib.sha1(json.dumps(obj, sort_keys=True, default=str).encode()).hexdigest()[:12]


class CaseTimeout(BaseException):
    pass


def _alarm(signum, frame):
    raise CaseTimeout()


def load_known(pid):
    path = os.path.join(VERIF, "known_findings.json")
    if not os.path.exists(path):
        return []
    with open(path) as f:
        data = json.load(f)
    return [e for e in data.get("findings", []) if e.get("property") == pid]


_W = {}


def _winit(modname):
    src = os.environ.get("QLASSKIT_SRC")
    if src and src not in sys.path:
        sys.path.insert(0, src)
    _W["mod"] = importlib.import_module(modname)
    known = load_known(_W["mod"].ID)
    idx = {}
    for e in known:
        for h, d in e.get("cases", {}).items():
            idx[h] = (e["id"], d)
    _W["known"] = idx
    signal.signal(signal.SIGPROF, _alarm)


def run_one(mod, case):
    """Run one case under the CPU cap; never raises."""
    signal.setitimer(signal.ITIMER_PROF, getattr(mod, "META", {}).get("case_cap_s", CASE_CAP_S))
    try:
        r = mod.run_case(case)
    except CaseTimeout:
        r = {"status": "capped", "rows": 0, "nontrivial": False, "outcome": "capped"}
    except Exception:  # a harness error is never a verdict about the library
        r = {
            "status": "harness_error",
            "rows": 0,
            "nontrivial": False,
            "outcome": "harness_error",
            "detail": traceback.format_exc()[-2000:],
        }
    finally:
        signal.setitimer(signal.ITIMER_PROF, 0)
    return r


def _wshard(arg):
    si, shard = arg
    mod = _W["mod"]
    known = _W["known"]
    agg = {
        "si": si,
        "n": 0,
        "states": 0,
        "rows": 0,
        "status": {},
        "outcomes": set(),
        "nontrivial": set(),
        "viol": [],
        "nviol": 0,
        "known": {},
        "errors": [],
        "counters": {},
        "first": None,
        "last": None,
        "keys": 0,
    }
    keyacc = hashlib.sha1()
    t_sh = time.time()
    agg["slow"] = []
    agg["capped_keys"] = []
    for case in mod.cases(shard):
        t_c = time.time()
        r = run_one(mod, case)
        t_c = time.time() - t_c
        if t_c > 1.0:
            agg["slow"].append((round(t_c, 2), case["key"][-160:]))
        h = khash(case["key"])
        keyacc.update(h.encode())
        agg["n"] += 1
        agg["states"] += r.get("states", 1)
        agg["rows"] += r.get("rows", 0)
        st = r["status"]
        agg["status"][st] = agg["status"].get(st, 0) + 1
        oc = r.get("outcome")
        if oc is not None:
            agg["outcomes"].add(oc)
            if r.get("nontrivial"):
                agg["nontrivial"].add(oc)
        for k, v in (r.get("counters") or {}).items():
            agg["counters"][k] = agg["counters"].get(k, 0) + v
        samp = {"key": case["key"], "status": st, "rows": r.get("rows", 0), "outcome": oc}
        if agg["first"] is None:
            agg["first"] = samp
        agg["last"] = samp
        if st == "violation":
            d = r.get("digest") or dig(r.get("detail"))
            kn = known.get(h)
            if kn is not None and kn[1] == d:
                agg["known"][kn[0]] = agg["known"].get(kn[0], 0) + 1
            else:
                agg["nviol"] += 1
                if len(agg["viol"]) < 200:
                    agg["viol"].append(
                        {"case": case, "hash": h, "digest": d, "detail": r.get("detail"),
                         "known_other_digest": kn[1] if kn else None}
                    )
        elif st == "capped":
            if len(agg["capped_keys"]) < 10:
                agg["capped_keys"].append(case["key"][:300])
        elif st == "harness_error":
            if len(agg["errors"]) < 5:
                agg["errors"].append({"case": case, "detail": r.get("detail")})
    agg["keys"] = keyacc.hexdigest()
    agg["wall"] = time.time() - t_sh
    agg["shard"] = shard
    return agg


def write_replay(pid, v, tier):
    d = os.path.join(VERIF, "replays", pid)
    os.makedirs(d, exist_ok=True)
    path = os.path.join(d, v["hash"] + ".json")
    with open(path, "w") as f:
        json.dump(
            {"property": pid, "tier": tier, "case": v["case"], "digest": v["digest"],
             "detail": v["detail"]},
            f, indent=1, sort_keys=True, default=str)
    return path


def evidence_dir():
    # a run pointed at a scratch copy of the repository (QLASSKIT_SRC, used to try seeded changes) must not
    # overwrite the evidence of /repo itself
    if os.environ.get("VERIF_EVIDENCE_DIR"):
        return os.environ["VERIF_EVIDENCE_DIR"]
    if os.environ.get("QLASSKIT_SRC"):
        return os.path.join(os.environ.get("TMPDIR", "/tmp"), "verif_scratch_evidence")
    return os.path.join(VERIF, "evidence")


def write_evidence(pid, ev):
    d = evidence_dir()
    os.makedirs(d, exist_ok=True)
    tmp = os.path.join(d, pid + ".json.tmp")
    with open(tmp, "w") as f:
        json.dump(ev, f, indent=1, sort_keys=True, default=str)
    os.replace(tmp, os.path.join(d, pid + ".json"))


def main(modname, tier, collect=None):
    t0 = time.time()
    src = os.environ.get("QLASSKIT_SRC")
    if src and src not in sys.path:
        sys.path.insert(0, src)
    mod = importlib.import_module(modname)
    pid = mod.ID
    seed = int(os.environ.get("VERIF_SEED", "0") or 0)
    # stale evidence must never survive a failed run
    try:
        os.remove(os.path.join(evidence_dir(), pid + ".json"))
    except OSError:
        pass

    # 1. oracle conformance (a broken oracle is exit 2, never a VIOLATION)
    conf_n, conf_fail = (0, [])
    if hasattr(mod, "conformance"):
        conf_n, conf_fail = mod.conformance(tier)
        if conf_fail:
            for m in conf_fail[:10]:
                print("ORACLE-CONFORMANCE-FAILURE:", m)
            print("internal error: oracle conformance failed; no verdict")
            return 2

    shards = list(mod.shards(tier))
    nproc = int(os.environ.get("VERIF_PROCS", "0") or 0) or min(16, os.cpu_count() or 1)
    nproc = max(1, min(nproc, len(shards), getattr(mod, "META", {}).get("max_procs", 64)))
    ctx = mp.get_context("fork")
    aggs = []
    with ctx.Pool(nproc, initializer=_winit, initargs=(modname,)) as pool:
        for agg in pool.imap_unordered(_wshard, list(enumerate(shards)), chunksize=1):
            aggs.append(agg)
    aggs.sort(key=lambda a: a["si"])

    n = sum(a["n"] for a in aggs)
    nstates = sum(a["states"] for a in aggs)
    rows = sum(a["rows"] for a in aggs)
    status = {}
    outcomes, nontriv = set(), set()
    counters = {}
    known_hits = {}
    viol = []
    nviol = 0
    errors = []
    for a in aggs:
        for k, v in a["status"].items():
            status[k] = status.get(k, 0) + v
        outcomes |= a["outcomes"]
        nontriv |= a["nontrivial"]
        for k, v in a["counters"].items():
            counters[k] = counters.get(k, 0) + v
        for k, v in a["known"].items():
            known_hits[k] = known_hits.get(k, 0) + v
        viol.extend(a["viol"])
        nviol += a["nviol"]
        errors.extend(a["errors"])

    if os.environ.get("VERIF_PROFILE"):
        for a in sorted(aggs, key=lambda a: -a["wall"])[:8]:
            print("PROFILE shard %.1fs n=%d %s" % (a["wall"], a["n"], json.dumps(a["shard"])[:200]))
        slow = sorted([x for a in aggs for x in a["slow"]], reverse=True)
        print("PROFILE cases slower than 1s: %d, total %.0fs" % (len(slow), sum(x[0] for x in slow)))
        for x in slow[:12]:
            print("PROFILE   %.1fs %r" % x)

    if errors:
        for e in errors[:3]:
            print("HARNESS-ERROR:", json.dumps(e["case"], default=str)[:300])
            print(e["detail"])
        print("internal error: the harness raised on %d case(s); no verdict" % status.get("harness_error", 0))
        return 2

    known = load_known(pid)
    for e in known:
        hits = known_hits.get(e["id"], 0)
        if hits:
            print("KNOWN-FINDING: property=%s %s: %s (%d listed cases hit)" % (pid, e["id"], e["title"], hits))

    if collect:
        with open(collect, "w") as f:
            for v in viol:
                f.write(json.dumps(v, sort_keys=True, default=str) + "\n")

    replay_paths = []
    for v in viol[:MAX_REPORTED]:
        p = write_replay(pid, v, tier)
        replay_paths.append(p)
        print("VIOLATION property=%s replay=%s" % (pid, p))
        k = v["case"]["key"]
        print("   case:", k if len(k) < 400 else k[:400] + "...")
        print("   detail:", json.dumps(v["detail"], default=str)[:600])
    if nviol > len(replay_paths):
        print("   ... and %d more violating cases (not listed)" % (nviol - len(replay_paths)))

    capped = status.get("capped", 0)
    samples = []
    if aggs:
        nz = [a for a in aggs if a["n"]]
        if nz:
            samples.append(nz[0]["first"])
            samples.append(nz[len(nz) // 2]["first"])
            samples.append(nz[-1]["last"])
    for v in viol[:3]:
        samples.append({"key": v["case"]["key"], "status": "violation", "detail": v["detail"]})
    executed = n - status.get("skipped", 0) - capped
    meta = mod.META
    bound = meta["bound"][tier] if isinstance(meta.get("bound"), dict) else meta.get("bound", "")
    keyacc = hashlib.sha1("".join(a["keys"] for a in aggs).encode()).hexdigest()[:16]
    ev = {
        "property_id": pid,
        "tier": tier,
        "seed": seed,
        "level": "model_checking",
        "wall_s": round(time.time() - t0, 2),
        "violations": nviol,
        "coverage": {
            "states": nstates,
            "cases": n,
            "transitions": rows,
            "traces_validated_against_impl": executed,
            "oracle_conformance_comparisons": conf_n,
            "evaluations": rows,
            "distinct_nontrivial": len(nontriv),
            "distinct_outcomes": len(outcomes),
            "rule": meta["rule"],
            "bound_completed": bound,
            "exhaustive": capped == 0,
            "capped_cases": capped,
            "capped_case_keys": [k for a in aggs for k in a.get("capped_keys", [])][:40],
            "case_cpu_cap_s": meta.get("case_cap_s", CASE_CAP_S),
            "status_counts": status,
            "counters": counters,
            "known_finding_cases_hit": known_hits,
            "shards": len(shards),
            "enumeration_fingerprint": keyacc,
            "workers": nproc,
            "samples": samples,
            "explanation": meta.get("explanation", ""),
        },
        "assumptions": meta.get("assumptions", []),
    }
    write_evidence(pid, ev)
    print("%s %s: states=%d transitions=%d distinct_outcomes=%d nontrivial=%d status=%s known=%s "
          "violations=%d wall=%.1fs" % (pid, tier, nstates, rows, len(outcomes), len(nontriv),
                                       json.dumps(status, sort_keys=True), json.dumps(known_hits, sort_keys=True),
                                       nviol, time.time() - t0))
    return 1 if nviol else 0


def replay(modname, path):
    """Re-run exactly one recorded case, twice, in this fresh process (no explorer)."""
    src = os.environ.get("QLASSKIT_SRC")
    if src and src not in sys.path:
        sys.path.insert(0, src)
    mod = importlib.import_module(modname)
    signal.signal(signal.SIGPROF, _alarm)
    with open(path) as f:
        rec = json.load(f)
    case = rec["case"]
    r1 = run_one(mod, case)
    r2 = run_one(mod, case)
    d1 = r1.get("digest") or dig(r1.get("detail"))
    d2 = r2.get("digest") or dig(r2.get("detail"))
    if (r1["status"], d1) != (r2["status"], d2):
        print("internal error: replay is not deterministic", r1["status"], d1, r2["status"], d2)
        return 2
    print("case:", case["key"])
    print("status:", r1["status"])
    if r1["status"] == "violation":
        print("detail:", json.dumps(r1.get("detail"), indent=1, default=str))
        print("VIOLATION property=%s replay=%s" % (mod.ID, path))
        return 1
    if r1["status"] == "harness_error":
        print(r1.get("detail"))
        return 2
    return 0
