"""Bit-parallel evaluators (reference models, deliberately boring).

Row r of a truth table over n input bits assigns input bit i the value (r >> i) & 1.  A *column*
is a Python int with 2^n bits: bit r of the column is the value on row r.  So one `&`, `|`, `^`
evaluates an operator on all assignments at once.

boolev : sympy expression (list) -> column(s)
bitsim : X / CX / CCX / MCX / MCtrl(X) circuit -> final column of every qubit
"""
from sympy import Symbol
from sympy.logic.boolalg import (
    ITE, And, BooleanFalse, BooleanTrue, Equivalent, Implies, Nand, Nor, Not, Or, Xnor, Xor,
)


def col(i, n):
    """Column of input bit i among n inputs: bit r is (r >> i) & 1."""
    block = 1 << i
    width = 2 * block
    unit = ((1 << block) - 1) << block
    reps = (1 << n) // width
    return unit * (((1 << (reps * width)) - 1) // ((1 << width) - 1))


def mask(n):
    return (1 << (1 << n)) - 1


class Unsupported(Exception):
    pass


def ev(expr, env, M):
    """Evaluate a sympy boolean expression; env: symbol name -> column."""
    if expr is True or isinstance(expr, BooleanTrue):
        return M
    if expr is False or isinstance(expr, BooleanFalse):
        return 0
    if isinstance(expr, Symbol):
        return env[expr.name]
    if isinstance(expr, Not):
        return M ^ ev(expr.args[0], env, M)
    if isinstance(expr, And):
        r = M
        for a in expr.args:
            r &= ev(a, env, M)
        return r
    if isinstance(expr, Or):
        r = 0
        for a in expr.args:
            r |= ev(a, env, M)
        return r
    if isinstance(expr, Xor):
        r = 0
        for a in expr.args:
            r ^= ev(a, env, M)
        return r
    if isinstance(expr, ITE):
        c = ev(expr.args[0], env, M)
        return (c & ev(expr.args[1], env, M)) | ((M ^ c) & ev(expr.args[2], env, M))
    if isinstance(expr, Implies):
        return (M ^ ev(expr.args[0], env, M)) | ev(expr.args[1], env, M)
    if isinstance(expr, Nand):
        r = M
        for a in expr.args:
            r &= ev(a, env, M)
        return M ^ r
    if isinstance(expr, Nor):
        r = 0
        for a in expr.args:
            r |= ev(a, env, M)
        return M ^ r
    if isinstance(expr, Xnor):
        r = 0
        for a in expr.args:
            r ^= ev(a, env, M)
        return M ^ r
    if isinstance(expr, Equivalent):
        cols = [ev(a, env, M) for a in expr.args]
        r = M
        for c in cols[1:]:
            r &= M ^ (cols[0] ^ c)
        return r
    raise Unsupported(repr(expr))


def boolev_list(exprs, input_names, n=None, lenient=False):
    """Evaluate an expression list sequentially.  Returns (env, M); env maps every input and
    every defined symbol name to its final column.  Raises KeyError on a free symbol that is
    neither an input nor defined earlier."""
    if n is None:
        n = len(input_names)
    M = mask(n)
    env = {nm: col(i, n) for i, nm in enumerate(input_names)}
    for s, e in exprs:
        nm = s.name if isinstance(s, Symbol) else str(s)
        if lenient:
            try:
                env[nm] = ev(e, env, M)
            except KeyError:
                env.pop(nm, None)  # poisoned: anything that reads it is poisoned too
        else:
            env[nm] = ev(e, env, M)
    return env, M


def bitsim(gates, num_qubits, init, M):
    """gates: iterable of (gate_obj, qubits, param) as stored by qlasskit.QCircuit.
    init: dict qubit -> column (others 0).  Returns list of final columns.
    Only classical reversible gates; anything else raises Unsupported."""
    q = [0] * num_qubits
    for k, v in init.items():
        q[k] = v
    for g, w, p in gates:
        name = g.__class__.__name__
        if name == "X":
            q[w[0]] ^= M
        elif name in ("CX", "CCX", "MCX") or (name == "MCtrl" and g.gate.__class__.__name__ == "X"):
            c = M
            for x in w[:-1]:
                c &= q[x]
            q[w[-1]] ^= c
        elif name in ("Barrier", "NopGate"):
            continue
        elif name == "I":
            continue
        else:
            raise Unsupported(name)
    return q


def rows_of(column, nrows, limit=4):
    """Indices of set bits (for reporting)."""
    out = []
    r = 0
    while column and len(out) < limit:
        if column & 1:
            out.append(r)
        column >>= 1
        r += 1
    return out


def popcount(x):
    return bin(x).count("1")
