#!/venv/bin/python
"""Print the markdown table of all seeded changes (from seeded/*/meta.json) for DESIGN.md §11."""
import glob
import json
import os

print("| seeded change | breaks | needs, in order to manifest | reported by |")
print("|---|---|---|---|")
for f in sorted(glob.glob("/verif/seeded/*/meta.json")):
    m = json.load(open(f))
    print("| `%s` | %s | %s | %s |" % (m["id"], m["breaks_property"], m["needs_to_manifest"].replace("|", "/"), ", ".join(m["caught_by"])))
