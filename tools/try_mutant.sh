#!/bin/bash
# Development aid: apply <patch> in scratch worktree <wt>, run the given checks (quick) against it via QLASSKIT_SRC, revert.
# usage: try_mutant.sh <wt> <patch> <Cxx> [Cxx ...]
wt="$1"; patch="$2"; shift 2
git -C "$wt" checkout -q -- . && git -C "$wt" apply "$patch" || { echo "patch does not apply"; exit 2; }
for c in "$@"; do
  out=$(cd /verif && QLASSKIT_SRC="$wt" ./run "$c" quick 2>&1); rc=$?
  echo "$c rc=$rc $(echo "$out" | grep -c '^VIOLATION') violation lines | $(echo "$out" | tail -1 | cut -c1-220)"
  echo "$out" | grep -A2 '^VIOLATION' | head -8 | cut -c1-400
done
git -C "$wt" checkout -q -- .
