#!/bin/bash
# Official pass over /verif/seeded: for each seeded change apply it to /repo (git apply), run the quick checks named in its
# meta.json, undo it (git checkout -- .), and write /verif/seeded/RESULTS.md.  Evidence of these runs goes to a scratch directory.
# /repo must be clean and nothing else may be using it.
set -u
cd /verif
[ -n "$(git -C /repo status --porcelain)" ] && { echo "/repo is not clean"; exit 2; }
export VERIF_EVIDENCE_DIR=$(mktemp -d /tmp/seeded_evidence.XXXX)
out=/verif/seeded/RESULTS.md
{
echo "# Seeded changes: which check reports them"
echo
echo "Each change was applied to /repo with \`git -C /repo apply\`, the listed quick checks were run from fresh processes, and the change was"
echo "undone with \`git -C /repo checkout -- .\`.  'caught' = the check exited 1 with at least one VIOLATION line."
echo
echo "| seeded change | property | check | result | first counterexample |"
echo "|---|---|---|---|---|"
} > $out
for d in seeded/*/; do
  id=$(basename $d)
  [ -f $d/meta.json ] || continue
  prop=$(/venv/bin/python -c "import json;print(json.load(open('$d/meta.json'))['breaks_property'])")
  checks=$(/venv/bin/python -c "import json;print(' '.join(json.load(open('$d/meta.json'))['caught_by']))")
  git -C /repo apply /verif/$d/patch.diff || { echo "| $id | $prop | - | PATCH DOES NOT APPLY | |" >> $out; continue; }
  for c in $checks; do
    o=$(./run $c quick 2>&1); rc=$?
    nv=$(echo "$o" | grep -c '^VIOLATION')
    first=$(echo "$o" | grep -A1 '^VIOLATION' | sed -n 2p | cut -c1-160 | tr '|' '/' | tr '\n' ' ')
    if [ $rc -eq 1 ] && [ $nv -gt 0 ]; then res="caught (exit 1)"; else res="NOT caught (exit $rc)"; fi
    echo "| $id | $prop | $c | $res | $first |" >> $out
    echo "$id $c rc=$rc nviol=$nv"
  done
  git -C /repo checkout -- .
done
rm -rf "$VERIF_EVIDENCE_DIR"
git -C /repo status --porcelain | head -3
