#!/venv/bin/python
"""Run the repository's pinned test suite in <dir> (default /repo) and compare with
/root/.vp/BASELINE.json: every stable_pass test must still pass.  Exit 0 iff so.
usage: run_baseline.py [dir] [-n workers]"""
import json
import os
import subprocess
import sys
import tempfile
import xml.etree.ElementTree as ET

d = "/repo"
nw = "8"
args = sys.argv[1:]
while args:
    a = args.pop(0)
    if a == "-n":
        nw = args.pop(0)
    else:
        d = a
base = json.load(open("/root/.vp/BASELINE.json"))
want = set(base["stable_pass"])
fd, xml = tempfile.mkstemp(suffix=".xml")
os.close(fd)
env = dict(os.environ)
env.pop("QLASSKIT_VERIF", None)
env.pop("QLASSKIT_SRC", None)
env["PYTHONPATH"] = d
cmd = ["/venv/bin/python", "-m", "pytest", "-q", "-p", "no:cacheprovider", "--timeout=900",
       "--continue-on-collection-errors", "--junitxml=" + xml]
if nw != "0":
    cmd += ["-n", nw]
r = subprocess.run(cmd, cwd=d, env=env, stdout=subprocess.PIPE, stderr=subprocess.STDOUT, text=True)
passed = set()
failed = set()
for tc in ET.parse(xml).getroot().iter("testcase"):
    name = "%s::%s" % (tc.get("classname"), tc.get("name"))
    if any(c.tag in ("failure", "error", "skipped") for c in tc):
        failed.add(name)
    else:
        passed.add(name)
os.remove(xml)
for f in (".t_statistics",):
    try:
        os.remove(os.path.join(d, f))
    except OSError:
        pass
missing = sorted(want - passed)
print("passed=%d failed=%d baseline=%d missing_from_pass=%d" % (len(passed), len(failed), len(want), len(missing)))
for m in missing[:30]:
    print("  NOT PASSING:", m)
if missing:
    print(r.stdout[-3000:])
sys.exit(1 if missing else 0)
