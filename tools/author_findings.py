#!/venv/bin/python
"""Authoring-time tool (never run by a check): record reviewed violations as a known finding.

usage: author_findings.py <property> <finding-id> <title> <witness> <regex-on-case-key> <collect.jsonl>...
Every violation in the collect files (written by `./run Cxx tier --collect f`) whose case key matches the
regex is listed under the finding as  sha1(key)[:16] -> digest of the wrong behaviour.  Violations that do
not match are printed so that nothing is swept under a finding unreviewed."""
import json
import os
import re
import sys

V = os.path.dirname(os.path.dirname(os.path.abspath(__file__)))
pid, fid, title, witness, rx = sys.argv[1:6]
files = sys.argv[6:]
path = os.path.join(V, "known_findings.json")
data = json.load(open(path)) if os.path.exists(path) else {"findings": [], "fixed": []}
ent = next((e for e in data["findings"] if e["id"] == fid), None)
if ent is None:
    ent = {"id": fid, "property": pid, "title": title, "witness": witness, "match": rx, "cases": {}}
    data["findings"].append(ent)
ent.update({"property": pid, "title": title, "witness": witness, "match": rx})
r = re.compile(rx, re.S)
added = other = 0
for f in files:
    for l in open(f):
        v = json.loads(l)
        if r.search(v["case"]["key"]):
            if ent["cases"].get(v["hash"]) != v["digest"]:
                added += 1
            ent["cases"][v["hash"]] = v["digest"]
        else:
            other += 1
            if other <= 5:
                print("NOT MATCHED:", v["case"]["key"][:200].replace("\n", "\\n"))
ent["cases"] = dict(sorted(ent["cases"].items()))
with open(path, "w") as f:
    json.dump(data, f, indent=1, sort_keys=True)
    f.write("\n")
print("finding %s: %d cases listed (%d new/changed); %d violations in the files did not match" % (fid, len(ent["cases"]), added, other))
