#!/bin/bash
# usage: eval_mutant.sh <wt> <mutdir> <Cxx> [Cxx...]
# Confirms a seeded change: demo passes on the clean worktree, fails on the patched one; the repository's own suite still
# passes with the patch; then runs the given quick checks against the patched tree (QLASSKIT_SRC) and reports.
wt="$1"; md="$2"; shift 2
git -C "$wt" checkout -q -- .
( cd "$md" && PYTHONPATH="$wt" timeout 600 /venv/bin/python demo.py >/dev/null 2>&1 ); echo "demo on clean tree: rc=$?"
git -C "$wt" apply "$md/patch.diff" || { echo "PATCH DOES NOT APPLY"; exit 2; }
( cd "$md" && PYTHONPATH="$wt" timeout 600 /venv/bin/python demo.py >/dev/null 2>&1 ); echo "demo on patched tree: rc=$?"
echo "suite on patched tree: $(/verif/tools/run_baseline.py "$wt" | head -1)"
for c in "$@"; do
  out=$(cd /verif && QLASSKIT_SRC="$wt" ./run "$c" quick 2>&1); rc=$?
  echo "CHECK $c rc=$rc nviol_lines=$(echo "$out" | grep -c '^VIOLATION') | $(echo "$out" | tail -1 | cut -c1-200)"
  echo "$out" | grep -A2 '^VIOLATION' | head -6 | cut -c1-300
done
git -C "$wt" checkout -q -- .
