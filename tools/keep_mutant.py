#!/venv/bin/python
"""Copy a confirmed seeded change into /verif/seeded/<id>/ with its meta.json.
usage: keep_mutant.py <src mutant dir> <seed id> <property> <caught by (comma list or 'none')> <needs text> [ran text]"""
import json
import os
import shutil
import sys

src, sid, prop, caught, needs = sys.argv[1:6]
ran = sys.argv[6] if len(sys.argv) > 6 else ""
dst = os.path.join("/verif/seeded", sid)
os.makedirs(dst, exist_ok=True)
for f in ("patch.diff", "demo.py", "notes.md"):
    if os.path.exists(os.path.join(src, f)):
        shutil.copy(os.path.join(src, f), os.path.join(dst, f))
for f in os.listdir(src):
    if f.endswith(".py") and f != "demo.py":
        shutil.copy(os.path.join(src, f), os.path.join(dst, f))
meta = {
    "id": sid,
    "breaks_property": prop,
    "needs_to_manifest": needs,
    "confirmed": "demo.py exits 0 on the unmodified tree and 1 with the patch; the repository's 408 baseline tests still pass with the patch "
                 "(tools/run_baseline.py on a scratch worktree)",
    "what_was_run": ran or "tools/eval_mutant.sh <scratch worktree> <this dir> <checks> (QLASSKIT_SRC pointing at the patched scratch worktree)",
    "caught_by": [c for c in caught.split(",") if c and c != "none"],
    "origin": "written by an independent sub-agent that saw only the property text and a scratch worktree",
}
with open(os.path.join(dst, "meta.json"), "w") as f:
    json.dump(meta, f, indent=1)
print("kept", dst)
