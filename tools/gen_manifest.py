#!/venv/bin/python
"""Regenerates /verif/MANIFEST.json from the table below (kept in one place so it stays valid)."""
import json
import os

V = os.path.dirname(os.path.dirname(os.path.abspath(__file__)))
BASE = "cd /repo && /venv/bin/python -m pytest -ra -q -p no:cacheprovider --timeout=900 --continue-on-collection-errors"

CHECKS = {
    # id: (technique, level text, level note, design ref)
}


def load_checks():
    import importlib.util
    spec = importlib.util.spec_from_file_location("manifest_table", os.path.join(V, "tools", "manifest_table.py"))
    m = importlib.util.module_from_spec(spec)
    spec.loader.exec_module(m)
    return m.CHECKS, m.NOT_APPLICABLE


def main():
    checks, na = load_checks()
    out = {
        "version": 1,
        "setup_cmd": "cd /verif && ./tools/setup.sh",
        "hooks": {
            "guard": "QLASSKIT_VERIF",
            "enable": "no source hooks are needed: checks import qlasskit from /repo's working tree (or $QLASSKIT_SRC) in "
                      "fresh worker processes; ./run exports QLASSKIT_VERIF=1 for uniformity",
            "baseline_off_cmd": BASE,
            "source_commits": [],
            "add_only": True,
        },
        "engines": [
            {"name": "mc", "path": "/verif/mc", "serves_properties": sorted(checks),
             "kind_free_text": "hand-written bounded exhaustive explorers (program-space, gate-sequence BFS, API-history "
                               "explicit-state search) driving the real implementation, with bit-parallel / state-vector "
                               "reference simulators as oracles"}
        ],
        "checks": [],
        "not_applicable": [{"property_id": k, "reason": v} for k, v in sorted(na.items())],
        "notes": "All checks: ./run <id> <quick|thorough>; exit 0 / exit 1 + VIOLATION line; exit 2 = internal error (no verdict). "
                 "Known findings: /verif/known_findings.json (never written at run time).",
    }
    for pid in sorted(checks):
        c = checks[pid]
        out["checks"].append({
            "property_id": pid,
            "quick_cmd": "./run %s quick" % pid,
            "thorough_cmd": "./run %s thorough" % pid,
            "evidence_file": "/verif/evidence/%s.json" % pid,
            "replay_cmd_template": "./run %s --replay {path}" % pid,
            "engine": "mc",
            "level_claimed": {"category": "model_checking", "text": c["text"], "design_ref": c["ref"]},
            "level_note": c["note"],
            "technique": c["technique"],
        })
    with open(os.path.join(V, "MANIFEST.json"), "w") as f:
        json.dump(out, f, indent=1)
        f.write("\n")
    print("wrote MANIFEST.json with", len(out["checks"]), "checks,", len(out["not_applicable"]), "not applicable")


if __name__ == "__main__":
    main()
