#!/venv/bin/python
"""Group collected violations (./run Cxx tier --collect file) for triage."""
import collections
import json
import re
import sys

f = sys.argv[1]
nshow = int(sys.argv[2]) if len(sys.argv) > 2 else 3
groups = collections.OrderedDict()
for l in open(f):
    v = json.loads(l)
    case = v["case"]
    src = case.get("src", case["key"])
    body = src.split("\n", 1)[1] if "\n" in src else src
    # abstract: variables/constants kept, signature widths extracted
    sig = re.findall(r"Qint\[(\d+)\]", src.split("\n")[0])
    pat = re.sub(r"\b\d+\b", "N", body)
    why = tuple(sorted(set(b.get("why", "?") for b in (v["detail"] or {}).get("bad", [])))) if isinstance(v["detail"], dict) else ("?",)
    ops = tuple(sorted(set(re.findall(r"\*\*|<<|>>|[-+*%&|^~<>]=?|==|!=|\bif\b|\bfor\b|\bmax\b|\bmin\b|\bsum\b", body))))
    k = (case.get("fam"), case.get("profile"), why, ops)
    groups.setdefault(k, []).append(v)
print(len(groups), "groups")
for k, vs in sorted(groups.items(), key=lambda kv: -len(kv[1])):
    print("=" * 100)
    print(len(vs), k)
    for v in vs[:nshow]:
        print(v["case"].get("src", v["case"]["key"]).rstrip())
        d = v["detail"]
        if isinstance(d, dict):
            print("   ", json.dumps(d.get("bad"))[:300])
            print("   ", str(d.get("expressions"))[:400])
