#!/bin/bash
# Offline setup: nothing to build (pure Python run by /venv/bin/python); verify the interpreter and imports.
set -e
cd "$(dirname "$0")/.."
mkdir -p evidence
/venv/bin/python -c "import sympy, numpy, qlasskit; import mc.engine, mc.sim; print('setup ok', qlasskit.__file__)"
