#!/bin/bash
# usage: silence.sh <tier> <seed> [Cxx ...]   — runs the checks from fresh processes; prints one line per check, exit 1 if any is not silent
tier="$1"; seed="$2"; shift 2
checks="$@"; [ -z "$checks" ] && checks="C01 C02 C03 C04 C05 C06 C07 C08 C09 C10 C11 C12 C13 C14 C15 C16 C17 C18"
rc=0
for c in $checks; do
  out=$(cd /verif && VERIF_SEED=$seed ./run $c $tier 2>&1); r=$?
  echo "seed=$seed $c rc=$r $(echo "$out" | tail -1 | cut -c1-230)"
  [ $r -ne 0 ] && { rc=1; echo "$out" | grep -A3 "^VIOLATION\|internal error\|ORACLE\|HARNESS" | head -12; }
done
exit $rc
