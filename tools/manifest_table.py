"""Per-property manifest entries (consumed by gen_manifest.py)."""
_PENDING = "check not built yet in this revision; will be claimed when its exhaustive explorer lands (see DESIGN.md §5)"

CHECKS = {
    "C02": {
        "technique": "bounded exhaustive enumeration of programs x configurations, bit-parallel simulation of the real compiled circuit on all 2^n inputs",
        "text": "Every program of a stated finite grammar x {default,fast} x {uncompute on,off} is compiled by the real compiler and "
                "its circuit simulated on every basis input; each return qubit must equal the function's own return expression. "
                "Exhaustive within the bound; no sampling.",
        "note": "Trusted: bitsim/boolev reference evaluators (cross-checked), CPython. Small-scope: <=5 bool args / <=10 input bits, depth<=2-4.",
        "ref": "§5 C02",
    },
    "C03": {
        "technique": "bounded exhaustive enumeration of programs, bit-parallel simulation of every qubit on all 2^n inputs",
        "text": "Same program space as C02 with uncompute=True; the final value of every qubit on every basis input is computed: "
                "argument qubits unchanged, all non-output qubits zero.",
        "note": "Trusted: bitsim. Small-scope bound as C02.",
        "ref": "§5 C03",
    },
    "C06": {
        "technique": "bounded exhaustive enumeration of predicates x both initial output values, bit-parallel simulation on all inputs",
        "text": "Every bool-returning program of the grammar is compiled and simulated on all inputs with the output qubit preset to 0 and to 1; "
                "output must be y xor f(x), inputs unchanged, scratch zero.",
        "note": "Trusted: bitsim/boolev. Small-scope bound as C02.",
        "ref": "§5 C06",
    },
}

CHECKS["C01"] = {
    "technique": "bounded exhaustive enumeration of typed programs x both optimizer profiles, all argument values, against a CPython-executed reference semantics",
    "text": "Every program of five finite grammar families is translated by the real front end; its return expressions are evaluated on ALL "
            "argument values and compared with CPython running the same source on exact integers with width/overflow tracking (exact / low "
            "determined bits / undetermined rule of the property); truth_table() compared on all rows for small n; rejected programs counted.",
    "note": "Trusted: CPython, the RefInt width rules (documented in DESIGN §3.5), boolev. Widths <= 4 bits (8 for single-argument types), depth <= 2.",
    "ref": "§5 C01",
}
CHECKS["C04"] = {
    "technique": "bounded exhaustive enumeration of expression lists x 17 optimizer transformations, bit-parallel equivalence on all assignments",
    "text": "All expressions up to depth 2 over And/Or/Not/Xor/ITE/Implies, n-ary sign patterns, list templates with shared intermediates and the "
            "front end's own raw lists are pushed through both profiles, each single step and every pipeline prefix; every return symbol must keep "
            "its truth table on all assignments and no undefined symbol may be read.",
    "note": "Trusted: boolev. Bound: <= 4-5 variables, depth <= 2.",
    "ref": "§5 C04",
}
CHECKS["C05"] = {
    "technique": "bounded exhaustive enumeration of signatures/programs x all argument values through encode_input -> real circuit -> decode_output",
    "text": "Every program of the type/builtin family (all signature shapes) plus two-argument integer and statement programs is compiled; for "
            "every argument value the encoded string, the simulated circuit reading and the decoded value are checked against reference codecs.",
    "note": "Trusted: reference codec (pyref.decode_value), bitsim, the documented string convention. <= 10 input bits.",
    "ref": "§5 C05",
}
CHECKS["C09"] = {
    "technique": "complete enumeration of all bit patterns of every shipped type (and nested types up to 10 bits)",
    "text": "Exhaustive, not bounded, for the scalar types: every pattern of every Qint/Qfixed/Qchar type through from_bool/to_bool/from_bin/to_bin/"
            "const/to_amplitudes against an independent reference codec; nested Tuple/Qlist/Qmatrix types through interpret_as_qtype.",
    "note": "Trusted: the reference codec. Qint16 only in the thorough tier.",
    "ref": "§5 C09",
}

ALL = ["C%02d" % i for i in range(1, 19)]
NOT_APPLICABLE = {p: _PENDING for p in ALL if p not in CHECKS}
