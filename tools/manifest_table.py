"""Per-property manifest entries (consumed by gen_manifest.py)."""
_PENDING = "check not built yet in this revision; will be claimed when its exhaustive explorer lands (see DESIGN.md §5)"

CHECKS = {
    "C02": {
        "technique": "bounded exhaustive enumeration of programs x configurations, bit-parallel simulation of the real compiled circuit on all 2^n inputs",
        "text": "Every program of a stated finite grammar x {default,fast} x {uncompute on,off} is compiled by the real compiler and "
                "its circuit simulated on every basis input; each return qubit must equal the function's own return expression. "
                "Exhaustive within the bound; no sampling.",
        "note": "Trusted: bitsim/boolev reference evaluators (cross-checked), CPython. Small-scope: <=5 bool args / <=10 input bits, depth<=2-4.",
        "ref": "§5 C02",
    },
    "C03": {
        "technique": "bounded exhaustive enumeration of programs, bit-parallel simulation of every qubit on all 2^n inputs",
        "text": "Same program space as C02 with uncompute=True; the final value of every qubit on every basis input is computed: "
                "argument qubits unchanged, all non-output qubits zero.",
        "note": "Trusted: bitsim. Small-scope bound as C02.",
        "ref": "§5 C03",
    },
    "C06": {
        "technique": "bounded exhaustive enumeration of predicates x both initial output values, bit-parallel simulation on all inputs",
        "text": "Every bool-returning program of the grammar is compiled and simulated on all inputs with the output qubit preset to 0 and to 1; "
                "output must be y xor f(x), inputs unchanged, scratch zero.",
        "note": "Trusted: bitsim/boolev. Small-scope bound as C02.",
        "ref": "§5 C06",
    },
}

ALL = ["C%02d" % i for i in range(1, 19)]
NOT_APPLICABLE = {p: _PENDING for p in ALL if p not in CHECKS}
