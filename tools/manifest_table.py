"""Per-property manifest entries (consumed by gen_manifest.py)."""
_PENDING = "check not built yet in this revision; will be claimed when its exhaustive explorer lands (see DESIGN.md §5)"

CHECKS = {
    "C02": {
        "technique": "bounded exhaustive enumeration of programs x configurations, bit-parallel simulation of the real compiled circuit on all 2^n inputs",
        "text": "Every program of a stated finite grammar x {default,fast} x {uncompute on,off} is compiled by the real compiler and "
                "its circuit simulated on every basis input; each return qubit must equal the function's own return expression. "
                "Exhaustive within the bound; no sampling.",
        "note": "Trusted: bitsim/boolev reference evaluators (cross-checked), CPython. Small-scope: <=5 bool args / <=10 input bits, depth<=2-4.",
        "ref": "§5 C02",
    },
    "C03": {
        "technique": "bounded exhaustive enumeration of programs, bit-parallel simulation of every qubit on all 2^n inputs",
        "text": "Same program space as C02 with uncompute=True; the final value of every qubit on every basis input is computed: "
                "argument qubits unchanged, all non-output qubits zero.",
        "note": "Trusted: bitsim. Small-scope bound as C02.",
        "ref": "§5 C03",
    },
    "C06": {
        "technique": "bounded exhaustive enumeration of predicates x both initial output values, bit-parallel simulation on all inputs",
        "text": "Every bool-returning program of the grammar is compiled and simulated on all inputs with the output qubit preset to 0 and to 1; "
                "output must be y xor f(x), inputs unchanged, scratch zero.",
        "note": "Trusted: bitsim/boolev. Small-scope bound as C02.",
        "ref": "§5 C06",
    },
}

CHECKS["C01"] = {
    "technique": "bounded exhaustive enumeration of typed programs x both optimizer profiles, all argument values, against a CPython-executed reference semantics",
    "text": "Every program of six finite grammar families is translated by the real front end; its return expressions are evaluated on ALL "
            "argument values and compared with CPython running the same source on exact integers with width/overflow tracking (exact / low "
            "determined bits / undetermined rule of the property); truth_table() compared on all rows for small n; rejected programs counted.",
    "note": "Trusted: CPython, the RefInt width rules (documented in DESIGN §3.5), boolev. Widths <= 4 bits (8 for single-argument types), depth <= 2.",
    "ref": "§5 C01",
}
CHECKS["C04"] = {
    "technique": "bounded exhaustive enumeration of expression lists x 17 optimizer transformations, bit-parallel equivalence on all assignments",
    "text": "All expressions up to depth 2 over And/Or/Not/Xor/ITE/Implies, n-ary sign patterns, list templates with shared intermediates and the "
            "front end's own raw lists are pushed through both profiles, each single step and every pipeline prefix; every return symbol must keep "
            "its truth table on all assignments and no undefined symbol may be read.",
    "note": "Trusted: boolev. Bound: <= 4-5 variables, depth <= 2.",
    "ref": "§5 C04",
}
CHECKS["C05"] = {
    "technique": "bounded exhaustive enumeration of signatures/programs x all argument values through encode_input -> real circuit -> decode_output",
    "text": "Every program of the type/builtin family (all signature shapes) plus two-argument integer and statement programs is compiled; for "
            "every argument value the encoded string, the simulated circuit reading and the decoded value are checked against reference codecs, and "
            "the value itself against CPython running the source.",
    "note": "Trusted: reference codec (pyref.decode_value), bitsim, the documented string convention. <= 10 input bits.",
    "ref": "§5 C05",
}
CHECKS["C09"] = {
    "technique": "complete enumeration of all bit patterns of every shipped type (and nested types up to 10 bits)",
    "text": "Exhaustive, not bounded, for the scalar types: every pattern of every Qint/Qfixed/Qchar type through from_bool/to_bool/from_bin/to_bin/"
            "const/to_amplitudes against an independent reference codec; nested Tuple/Qlist/Qmatrix types through interpret_as_qtype.",
    "note": "Trusted: the reference codec. Qint16 only in the thorough tier.",
    "ref": "§5 C09",
}

CHECKS["C06"]["ref"] = "§5 C06"
CHECKS["C07"] = {
    "technique": "bounded exhaustive enumeration of (callee, caller shape, binding route, profiles), all inputs, against CPython executing caller+callee",
    "text": "Seven callees x ~100 caller shapes (swapped/repeated arguments, tuple and list elements of bool and int type, nested calls, expression "
            "arguments, calls under if / in loops, clashing names) x routes {defs=, inline def, oraclize for every target value}; the caller's "
            "expressions are compared on all inputs with CPython running both sources; free symbols and the callee's fingerprint are checked.",
    "note": "Trusted: pyref, boolev. Callee arity <= 2, widths <= 4 bits.",
    "ref": "§5 C07",
}
CHECKS["C08"] = {
    "technique": "bounded exhaustive enumeration of parameterised programs x full product of parameter values x all keyword orders; bind histories up to length 3",
    "text": "Every bind over the full value product and every keyword order is compared, on all remaining inputs, with CPython running the unbound "
            "source with the parameters set; every bind sequence of length <= 3 over three value tuples must equal the same bind on a fresh object "
            "and leave the unbound AST untouched; wrong/missing/extra keywords must raise.",
    "note": "Trusted: pyref. ~60 templates; parameter domains <= 4-16 values.",
    "ref": "§5 C08",
}
CHECKS["C10"] = {
    "technique": "explicit-state search over API operation sequences on the live interpreter: fork() snapshots, canonical state hashing, invariants on every transition",
    "text": "All sequences of <= 2 operations from a 43-operation menu (<= 3 below five first operations; thorough: one level deeper) are explored "
            "with fork() as exact snapshot; states "
            "(module namespaces, default arguments, live object fingerprints) are deduplicated by hash; on every transition: no damage to live "
            "objects, result equal to the pristine-interpreter reference, raises iff the reference raises.",
    "note": "Trusted: the canonical-state abstraction (argued in DESIGN §3.4); references validated against a genuinely fresh interpreter. Runs in one "
            "worker: fork() does not parallelise in this sandbox.",
    "ref": "§5 C10",
}
CHECKS["C11"] = {
    "technique": "breadth-first enumeration of all gate sequences up to length L through the real QCircuit API; decompiler vs independent scanner + bit-parallel simulation",
    "text": "Every circuit up to the bound is decompiled; sections, index ranges, gate lists and expressions are compared with an independent scan "
            "and with the simulation of each run on all entry values.",
    "note": "Trusted: bitsim/boolev. n <= 3 (4 for MCX), L <= 4-7.",
    "ref": "§5 C11",
}
CHECKS["C12"] = {
    "technique": "breadth-first enumeration of all gate sequences up to length L; unitary equality of optimizer output by state-vector simulation",
    "text": "Every circuit up to the bound goes through circuit_boolean_optimizer; unitary, qubit count, gate count and operand integrity are checked.",
    "note": "Trusted: svsim (cross-checked with qiskit). n <= 3, L <= 4-7.",
    "ref": "§5 C12",
}
CHECKS["C13"] = {
    "technique": "enumeration of all gate sequences over the full exportable gate set (L <= 2-3) plus compiled circuits, x exporters x modes; unitary / parsed-text equality",
    "text": "Each circuit is exported with qiskit, cirq, sympy and QASM 2/3 in both modes; the exported object's unitary (or the parsed QASM) must be "
            "the reference simulator's: same gates on the same qubit indices, one formal per qubit in index order.",
    "note": "Trusted: qiskit Operator, cirq.unitary, sympy represent, svsim. pennylane/qutip not installed.",
    "ref": "§5 C13",
}
CHECKS["C14"] = {
    "technique": "exhaustive enumeration of circuit pairs x injective qubit maps, repeat counts, copies, shared-object gate sequences, qubit lists; unitary products + aliasing fingerprints",
    "text": "append_circuit / + / += for every (a, b, injective map) of the pool, repeat(1..3), copy(), copy(vanilla), remove_identities on every "
            "sequence of shared gate objects, qft/iqft on every injective qubit list; operands fingerprinted before, after and after mutating the result.",
    "note": "Trusted: svsim. Pool circuits of length <= 2 on <= 3 qubits; remove_identities L <= 4-5.",
    "ref": "§5 C14",
}
CHECKS["C15"] = {
    "technique": "exhaustive enumeration of every solution set (|S| <= N/4) x syntactic forms; exact output distribution by sparse state simulation vs ideal-oracle construction",
    "text": "For every solution set of the stated widths and 14 ways of writing / compiling the predicate, the exact Grover output distribution "
            "equals that of the same construction on an ideal oracle, ranks solutions first, exceeds 1/2, and decodes to the argument type.",
    "note": "Trusted: sparse simulator (cross-checked with the dense one), ideal minterm oracle. n <= 4 (5 with |S| <= 2).",
    "ref": "§5 C15",
}
CHECKS["C16"] = {
    "technique": "exhaustive enumeration of all constant/balanced functions, all secrets, all periods; exact output distributions by sparse state simulation",
    "text": "Deutsch-Jozsa on every constant/balanced function (n <= 3, 4 thorough), Bernstein-Vazirani on every secret (n <= 4, 5), Simon on every "
            "period (n <= 3, 4) with 7-39 functions each (thorough: every two-to-one function on 3 bits); distributions and decoded outcomes must meet the textbook guarantees, with an ideal-oracle "
            "twin to attribute failures.",
    "note": "Trusted: sparse simulator, ideal oracle.",
    "ref": "§5 C16",
}
CHECKS["C17"] = {
    "technique": "enumeration of all command lines (scripts x forms x formats x entry points x I/O modes) through the real main(); parsed output compared on all assignments",
    "text": "py2bexp / py2qasm main() are driven in-process for every combination; printed expressions are parsed and compared on every assignment, "
            "DIMACS by brute-force variable bijection, QASM against the exporter and the C13 reader.",
    "note": "Trusted: own parsers (round-trip checked), boolev. 12-function pool, <= 3 functions per script.",
    "ref": "§5 C17",
}
CHECKS["C18"] = {
    "technique": "bounded exhaustive enumeration of programs x 4 formats through the real to_bqm with a polynomial pyqubo stand-in; energies on every assignment",
    "text": "The polynomial (and its QUBO/Ising/BQM tables) built by to_bqm is evaluated on every assignment of all its variables; ground states must be "
            "the minimisers of the number of true return bits (zero energy at zeros), variables must be argument bits or declared auxiliaries, "
            "decode_samples must return the argument values.",
    "note": "Trusted: mc/stubs/pyqubo.py as the meaning of pyqubo constructs (real pyqubo absent); gadget identities checked exhaustively.",
    "ref": "§5 C18",
}

ALL = ["C%02d" % i for i in range(1, 19)]
NOT_APPLICABLE = {p: _PENDING for p in ALL if p not in CHECKS}
