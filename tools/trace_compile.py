#!/venv/bin/python
"""Debug aid: run the real InternalCompiler.compile and, after every top-level expression, check that
the qubit mapped to the symbol holds its value, and after the inline uncompute that every cached
expression / mapped symbol is still held by the qubit the compiler believes holds it."""
import os
import sys
sys.path.insert(0, "/verif")
if os.environ.get("QLASSKIT_SRC"):
    sys.path.insert(0, os.environ["QLASSKIT_SRC"])
from mc import harness as H, sim  # noqa
from qlasskit.compiler.internalcompiler import InternalCompiler  # noqa
from qlasskit.qcircuit import QCircuitEnhanced  # noqa

src = open(sys.argv[1]).read() if os.path.exists(sys.argv[1]) else sys.argv[1].replace("\\n", "\n")
profile = sys.argv[2] if len(sys.argv) > 2 else "fast"
unc = (sys.argv[3] != "0") if len(sys.argv) > 3 else False
qf = H.translate(src, profile)
names = H.input_names(qf)
n = len(names)
M = sim.mask(n)
env = {nm: sim.col(i, n) for i, nm in enumerate(names)}
exprs = list(qf.expressions)
state = {"i": 0, "comp": None, "ng": 0}


def cols_of(qc):
    return sim.bitsim(qc.gates, qc.num_qubits, {i: sim.col(i, n) for i in range(n)}, M)


orig_map = QCircuitEnhanced.map_qubit
orig_unc = QCircuitEnhanced.uncompute


def map_qubit(self, name, index, promote=False):
    orig_map(self, name, index, promote)
    sym, exp = exprs[state["i"]]
    want = sim.ev(exp, env, M)
    c = cols_of(self)
    env[sym.name] = want
    print("%-8s %-60s -> q%d %s   (+%d gates)" % (sym, str(exp)[:60], index, "ok" if c[index] == want else "WRONG",
                                                 len(self.gates) - state["ng"]))
    state["i"] += 1


def uncompute(self, to_mark=[]):
    r = orig_unc(self, to_mark)
    state["ng"] = len(self.gates)
    c = cols_of(self)
    comp = state["comp"]
    for e, q in comp.expqmap.exp_map.items():
        if q in r:
            continue
        try:
            w = sim.ev(e, env, M)
        except KeyError:
            continue
        if c[q] != w:
            print("      stale cache after uncompute: %s believed on q%d" % (str(e)[:80], q))
    for nm, q in self.qubit_map.items():
        if nm in env and c[q] != env[nm] and not any(s.name == nm for s, _ in exprs[state["i"]:]) is False:
            pass
    return r


QCircuitEnhanced.map_qubit = map_qubit
QCircuitEnhanced.uncompute = uncompute
comp = InternalCompiler()
state["comp"] = comp
qc = comp.compile("x", qf.args, qf.returns, exprs, uncompute=unc)
c = cols_of(qc)
print("qubit_map", qc.qubit_map)
outs = [qc.qubit_map[b] for b in qf.returns.bitvec if b in qc.qubit_map]
for b in qf.returns.bitvec:
    if b in qc.qubit_map and c[qc.qubit_map[b]] != env[b]:
        print("FINAL: return bit", b, "on q%d is wrong" % qc.qubit_map[b])
if unc:
    print("dirty scratch:", [q for q in range(n, qc.num_qubits) if q not in outs and c[q]])
if "-g" in sys.argv:
    for i, (g, w, p) in enumerate(qc.gates):
        print(i, g.__class__.__name__, w)
